//! Generates the list of harper-ls modules to compile into the simulator from
//! the `mod …;` lines of /repo/harper-ls/src/main.rs (harper-ls is a bin-only
//! crate, so its sources are included by path), and extracts the concurrency
//! level that main.rs configures on tower-lsp's `Server` (default 4).
use std::{env, fs, path::PathBuf};

fn main() {
    let repo = env::var("HARPER_REPO").unwrap_or_else(|_| "/repo".to_string());
    let main_rs = format!("{repo}/harper-ls/src/main.rs");
    println!("cargo:rerun-if-changed={main_rs}");
    println!("cargo:rerun-if-env-changed=HARPER_REPO");
    let src = fs::read_to_string(&main_rs).expect("read harper-ls main.rs");
    let mut out = String::new();
    for line in src.lines() {
        let l = line.trim();
        let l = l.strip_prefix("pub ").unwrap_or(l);
        if let Some(rest) = l.strip_prefix("mod ") {
            if let Some(name) = rest.strip_suffix(';') {
                let name = name.trim();
                let f1 = format!("{repo}/harper-ls/src/{name}.rs");
                let f2 = format!("{repo}/harper-ls/src/{name}/mod.rs");
                let f = if PathBuf::from(&f1).exists() { f1 } else { f2 };
                out.push_str(&format!("#[path = \"{f}\"]\n#[allow(dead_code, unused_imports)]\npub mod {name};\n"));
            }
        }
    }
    // tower-lsp 0.20's default max_concurrency is 4.  main.rs builds a `Server` per transport;
    // simulate the most concurrent of them (a `Server::new(..)` without `.concurrency_level(n)`
    // before its `.serve(` counts as 4).
    let mut level = 0usize;
    let mut rest = src.as_str();
    let mut servers = 0;
    while let Some(p) = rest.find("Server::new(") {
        servers += 1;
        let tail = &rest[p..];
        let end = tail.find(".serve(").unwrap_or(tail.len());
        let chain = &tail[..end];
        let mut l = 4usize;
        if let Some(q) = chain.find(".concurrency_level(") {
            let r = &chain[q + ".concurrency_level(".len()..];
            if let Some(e) = r.find(')') {
                if let Ok(n) = r[..e].trim().parse::<usize>() {
                    l = n;
                } else {
                    l = 4; // not a literal: assume the default
                }
            }
        }
        level = level.max(l);
        rest = &tail[end.min(tail.len())..];
        if end == tail.len() {
            break;
        }
    }
    if servers == 0 || level == 0 {
        level = 4;
    }
    out.push_str(&format!("pub const LS_CONCURRENCY_LEVEL: usize = {level};\n"));
    let dst = PathBuf::from(env::var("OUT_DIR").unwrap()).join("ls_mods.rs");
    fs::write(dst, out).unwrap();
}
