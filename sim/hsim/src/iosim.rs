//! `io-sim` (C19): the statistics log as a simulated file, written by a
//! sequence of append sessions through a fault-injecting `Write` and read back
//! through a fault-injecting `Read`.
//!
//! Faults are the legal behaviours of the stream contract only: short
//! writes/reads of any length, `ErrorKind::Interrupted`, chunk boundaries inside
//! UTF-8 sequences and at line ends, arbitrary buffer capacities.  A correct
//! program must not change its result under any of them.

use crate::job::{Job, RunResult, Violation};
use crate::rng::{Rng, fnv1a};
use harper_core::linting::{LintGroup, LintGroupConfig, LintKind, Linter};
use harper_core::{
    Dialect, Document, FatStringToken, FstDictionary, Number, NumberSuffix, Punctuation, Quote, TokenKind,
    WordMetadata,
};
use harper_stats::{Record, RecordKind, Stats};
use serde_json::json;
use std::io::{self, BufReader, BufWriter, Read, Write};

// ------------------------------------------------------------------ fault plans

#[derive(Clone, Debug, Default)]
pub struct Faults {
    /// per-mille probability that a call is interrupted
    pub eintr_pm: usize,
    /// per-mille probability that a call transfers fewer bytes than it could
    pub short_pm: usize,
    /// upper bound on bytes per call (0 = none)
    pub max_chunk: usize,
    /// deterministic: never let a call cross this absolute offset
    pub cut_at: Option<usize>,
    /// deterministic: interrupt once the first time a call starts at this offset
    pub eintr_at: Option<usize>,
}

#[derive(Default, Clone, Debug)]
pub struct FaultStats {
    pub calls: u64,
    pub short: u64,
    pub eintr: u64,
    pub split_utf8: u64,
    pub one_byte: u64,
    pub decisions: u64,
}

pub struct FaultyWriter<'a> {
    pub sink: &'a mut Vec<u8>,
    /// absolute offset of the start of this session in the log
    base: usize,
    rng: Rng,
    f: Faults,
    eintr_done: bool,
    pub st: FaultStats,
    pub flushed: bool,
}

impl<'a> FaultyWriter<'a> {
    pub fn new(sink: &'a mut Vec<u8>, seed: u64, f: Faults) -> Self {
        let base = sink.len();
        FaultyWriter { sink, base, rng: Rng::new(seed), f, eintr_done: false, st: FaultStats::default(), flushed: true }
    }
}

impl Write for FaultyWriter<'_> {
    fn write(&mut self, buf: &[u8]) -> io::Result<usize> {
        self.st.calls += 1;
        if buf.is_empty() {
            return Ok(0);
        }
        let pos = self.sink.len() - self.base;
        if let Some(p) = self.f.eintr_at {
            if pos == p && !self.eintr_done {
                self.eintr_done = true;
                self.st.eintr += 1;
                return Err(io::ErrorKind::Interrupted.into());
            }
        }
        if self.f.eintr_pm > 0 && self.rng.chance(self.f.eintr_pm, 1000) {
            self.st.eintr += 1;
            self.st.decisions = self.st.decisions.wrapping_mul(31).wrapping_add(7);
            return Err(io::ErrorKind::Interrupted.into());
        }
        let mut n = buf.len();
        if self.f.max_chunk > 0 {
            n = n.min(self.f.max_chunk);
        }
        if n > 1 && self.f.short_pm > 0 && self.rng.chance(self.f.short_pm, 1000) {
            n = self.rng.range(1, n - 1);
        }
        for p in [self.f.cut_at, self.f.eintr_at].into_iter().flatten() {
            if pos < p && pos + n > p {
                n = p - pos;
            }
        }
        if n < buf.len() {
            self.st.short += 1;
            if buf[n] & 0xC0 == 0x80 {
                self.st.split_utf8 += 1;
            }
            if n == 1 {
                self.st.one_byte += 1;
            }
        }
        self.st.decisions = self.st.decisions.wrapping_mul(31).wrapping_add(n as u64);
        self.sink.extend_from_slice(&buf[..n]);
        self.flushed = false;
        Ok(n)
    }
    fn flush(&mut self) -> io::Result<()> {
        self.flushed = true;
        Ok(())
    }
}

pub struct FaultyReader<'a> {
    src: &'a [u8],
    pos: usize,
    rng: Rng,
    f: Faults,
    eintr_done: bool,
    pub st: FaultStats,
}

impl<'a> FaultyReader<'a> {
    pub fn new(src: &'a [u8], seed: u64, f: Faults) -> Self {
        FaultyReader { src, pos: 0, rng: Rng::new(seed), f, eintr_done: false, st: FaultStats::default() }
    }
}

impl Read for FaultyReader<'_> {
    fn read(&mut self, buf: &mut [u8]) -> io::Result<usize> {
        self.st.calls += 1;
        let avail = self.src.len() - self.pos;
        if avail == 0 || buf.is_empty() {
            return Ok(0);
        }
        if let Some(p) = self.f.eintr_at {
            if self.pos == p && !self.eintr_done {
                self.eintr_done = true;
                self.st.eintr += 1;
                return Err(io::ErrorKind::Interrupted.into());
            }
        }
        if self.f.eintr_pm > 0 && self.rng.chance(self.f.eintr_pm, 1000) {
            self.st.eintr += 1;
            self.st.decisions = self.st.decisions.wrapping_mul(31).wrapping_add(7);
            return Err(io::ErrorKind::Interrupted.into());
        }
        let full = avail.min(buf.len());
        let mut n = full;
        if self.f.max_chunk > 0 {
            n = n.min(self.f.max_chunk);
        }
        if n > 1 && self.f.short_pm > 0 && self.rng.chance(self.f.short_pm, 1000) {
            n = self.rng.range(1, n - 1);
        }
        for p in [self.f.cut_at, self.f.eintr_at].into_iter().flatten() {
            if self.pos < p && self.pos + n > p {
                n = p - self.pos;
            }
        }
        if n < full {
            self.st.short += 1;
            if self.src[self.pos + n] & 0xC0 == 0x80 {
                self.st.split_utf8 += 1;
            }
            if n == 1 {
                self.st.one_byte += 1;
            }
        }
        self.st.decisions = self.st.decisions.wrapping_mul(31).wrapping_add(n as u64);
        buf[..n].copy_from_slice(&self.src[self.pos..self.pos + n]);
        self.pos += n;
        Ok(n)
    }
}

// ------------------------------------------------------------------ record generation

const NASTY: &[&str] = &[
    "teh",
    "recieve",
    "line\nbreak",
    "crlf\r\nhere",
    "\r",
    "\n",
    "\n\n",
    "sep\u{2028}arator",
    "para\u{2029}graph",
    "nel\u{85}x",
    "quote\"inside",
    "back\\slash",
    "\\n",
    "nul\u{0}byte",
    "bell\u{7}",
    "esc\u{1b}[0m",
    "del\u{7f}",
    "\u{301}",
    "e\u{301}\u{302}",
    "👩‍👩‍👧‍👦",
    "𝒜𝓈𝓉𝓇𝒶𝓁",
    "日本語",
    "\u{202e}rtl",
    "\u{feff}bom",
    "tab\there",
    "{\"kind\":\"x\"}",
    "}\n{",
    "",
    " ",
    "ﬁ",
    "\u{fffd}",
    "\u{10ffff}",
    "a'b’c",
];

const KINDS: &[LintKind] = &[
    LintKind::Spelling,
    LintKind::Capitalization,
    LintKind::Style,
    LintKind::Formatting,
    LintKind::Repetition,
    LintKind::Enhancement,
    LintKind::Readability,
    LintKind::WordChoice,
    LintKind::Miscellaneous,
    LintKind::Punctuation,
];

pub const RULES: &[&str] = &[
    "SpellCheck",
    "AnA",
    "RepeatedWords",
    "SentenceCapitalization",
    "Spaces",
    "LongSentences",
    "CorrectNumberSuffix",
    "UnclosedQuotes",
    "no such rule",
    "Ünïcode\nRule",
];

fn gen_string(rng: &mut Rng) -> String {
    let mut s = String::new();
    let parts = rng.range(1, 3);
    for _ in 0..parts {
        if rng.chance(2, 3) {
            s.push_str(*rng.pick(NASTY));
        } else {
            let n = rng.range(0, 6);
            for _ in 0..n {
                let c = match rng.below(6) {
                    0 => char::from_u32(rng.below(0x20) as u32).unwrap(),
                    1 => char::from_u32(0x80 + rng.below(0x40) as u32).unwrap(),
                    2 => char::from_u32(0x1F600 + rng.below(0x40) as u32).unwrap(),
                    3 => char::from_u32(0x0300 + rng.below(0x30) as u32).unwrap(),
                    _ => (b'a' + rng.below(26) as u8) as char,
                };
                s.push(c);
            }
        }
    }
    s
}

fn gen_token_kind(rng: &mut Rng) -> TokenKind {
    match rng.below(12) {
        0 | 1 | 2 => TokenKind::Word(None),
        3 => TokenKind::Word(Some(WordMetadata::default())),
        4 => {
            let tw = rng.below(50);
            TokenKind::Punctuation(*rng.pick(&[
            Punctuation::Period,
            Punctuation::Comma,
            Punctuation::Quote(Quote { twin_loc: None }),
            Punctuation::Quote(Quote { twin_loc: Some(tw) }),
            Punctuation::Backslash,
            Punctuation::Ellipsis,
        ]))
        }
        5 => TokenKind::Space(rng.range(1, 9)),
        6 => TokenKind::Newline(rng.range(1, 3)),
        7 => {
            // as the lexer builds them: value parsed from decimal text
            let texts = ["2", "21", "0.5", "1000000", "3.14159", "12345678901234567890", "0.1", "1e3", "007"];
            let t = rng.pick(&texts);
            TokenKind::Number(Number {
                value: t.parse::<f64>().unwrap().into(),
                suffix: *rng.pick(&[None, Some(NumberSuffix::St), Some(NumberSuffix::Th)]),
                radix: 10,
                precision: t.chars().rev().position(|c| c == '.').unwrap_or_default(),
            })
        }
        8 => TokenKind::Unlintable,
        9 => TokenKind::ParagraphBreak,
        10 => TokenKind::Url,
        _ => TokenKind::EmailAddress,
    }
}

fn gen_config(rng: &mut Rng) -> LintGroupConfig {
    let mut m = serde_json::Map::new();
    for _ in 0..rng.range(0, 5) {
        let v = match rng.below(3) {
            0 => json!(true),
            1 => json!(false),
            _ => json!(null),
        };
        m.insert(rng.pick(RULES).to_string(), v);
    }
    serde_json::from_value(serde_json::Value::Object(m)).expect("config from json")
}

const REAL_TEXTS: &[&str] = &[
    "This is an test of teh stats log.",
    "She said \"helo\" to to him.\nThe 2st line has an error.",
    "naïve café 𝒜 wrold — “quoted txet” here.",
    "It costs 100$ and an apple is is here.\r\nSecond line with a eror.",
];

fn real_records(rng: &mut Rng) -> Vec<RecordKind> {
    let dict = FstDictionary::curated();
    let text = rng.pick(REAL_TEXTS);
    let doc = Document::new_markdown_default(text, &dict);
    let mut group = LintGroup::new_curated(dict.clone(), Dialect::American);
    let lints = group.lint(&doc);
    lints.iter().map(|l| RecordKind::from_lint(l, &doc)).collect()
}

fn gen_record(rng: &mut Rng) -> Record {
    let kind = if rng.chance(1, 5) {
        RecordKind::LintConfigUpdate(gen_config(rng))
    } else {
        let n = rng.range(0, 5);
        RecordKind::Lint {
            kind: *rng.pick(KINDS),
            context: (0..n).map(|_| FatStringToken { content: gen_string(rng), kind: gen_token_kind(rng) }).collect(),
        }
    };
    let when = match rng.below(9) {
        0 => 0,
        1 => -1,
        2 => i64::MAX,
        3 => i64::MIN,
        // any 64-bit value: beyond 2^53 a detour through floating point would show
        4 => rng.next_u64() as i64,
        5 => (1i64 << 53) + 1 + rng.below(1000) as i64,
        6 => i64::MAX - 1 - rng.below(1000) as i64,
        _ => 1_700_000_000 + rng.below(1_000_000) as i64,
    };
    let mut b = [0u8; 16];
    for x in b.iter_mut() {
        *x = rng.below(256) as u8;
    }
    Record { kind, when, uuid: uuid::Uuid::from_bytes(b) }
}

fn gen_sessions(rng: &mut Rng, small: bool) -> Vec<Vec<Record>> {
    let nsess = if small { rng.range(1, 2) } else { rng.range(1, 5) };
    let mut out = vec![];
    let use_real = !small && rng.chance(1, 8);
    for _ in 0..nsess {
        let n = if small { rng.range(1, 2) } else { rng.range(0, 6) };
        let mut recs: Vec<Record> = (0..n).map(|_| gen_record(rng)).collect();
        if use_real {
            for k in real_records(rng) {
                let mut r = gen_record(rng);
                r.kind = k;
                recs.push(r);
            }
        }
        out.push(recs);
    }
    out
}

// ------------------------------------------------------------------ oracle

fn check_log(
    res: &mut RunResult,
    what: &str,
    model: &[Record],
    log: &[u8],
    read_back: &io::Result<Stats>,
    ctx: &serde_json::Value,
) -> bool {
    let mut ok = true;
    let mut fail = |res: &mut RunResult, rule: &str, class: &str, detail: String| {
        res.violate(Violation {
            property: "C19".into(),
            oracle: format!("C19.{rule}"),
            class: class.into(),
            detail: format!("{what}: {detail}"),
            facts: ctx.clone(),
        });
    };
    match read_back {
        Err(e) => {
            fail(res, "read_back", "read_error", format!("Stats::read failed: {e}"));
            ok = false;
        }
        Ok(st) => {
            if st.records.len() != model.len() {
                fail(
                    res,
                    "read_back",
                    "record_count",
                    format!("read back {} records, wrote {}", st.records.len(), model.len()),
                );
                ok = false;
            } else if let Some(i) = (0..model.len()).find(|i| st.records[*i] != model[*i]) {
                fail(
                    res,
                    "read_back",
                    "record_differs",
                    format!("record {i} differs: wrote {:?}, read {:?}", model[i], st.records[i]),
                );
                ok = false;
            }
        }
    }
    // (b) exactly one raw line break per record, each at a record end
    let nl = log.iter().filter(|b| **b == b'\n').count();
    if nl != model.len() || (!log.is_empty() && *log.last().unwrap() != b'\n') {
        fail(
            res,
            "line_structure",
            "line_structure",
            format!("{} raw line breaks for {} records (log ends with newline: {})", nl, model.len(), log.last() == Some(&b'\n')),
        );
        ok = false;
    } else {
        for (i, line) in log.split(|b| *b == b'\n').take(model.len()).enumerate() {
            match serde_json::from_slice::<Record>(line) {
                Ok(r) if r == model[i] => {}
                Ok(_) => {
                    fail(res, "line_structure", "line_record_differs", format!("line {i} is not record {i}"));
                    ok = false;
                    break;
                }
                Err(e) => {
                    fail(res, "line_structure", "line_unparsable", format!("line {i} does not parse alone: {e}"));
                    ok = false;
                    break;
                }
            }
        }
    }
    // (c) summarize
    if let Ok(st) = read_back {
        let sum = st.summarize();
        let mut expect_total = 0u32;
        let mut per_kind: std::collections::BTreeMap<String, u32> = Default::default();
        let mut last_cfg = LintGroupConfig::default();
        for r in model {
            match &r.kind {
                RecordKind::Lint { kind, .. } => {
                    expect_total += 1;
                    *per_kind.entry(format!("{kind:?}")).or_insert(0) += 1;
                }
                RecordKind::LintConfigUpdate(c) => last_cfg = c.clone(),
            }
        }
        if ok {
            if sum.total_applied != expect_total {
                fail(res, "summary", "summary_total", format!("total_applied {} != {}", sum.total_applied, expect_total));
                ok = false;
            }
            for k in KINDS {
                let want = per_kind.get(&format!("{k:?}")).copied().unwrap_or(0);
                if sum.get_count(*k) != want {
                    fail(res, "summary", "summary_kind", format!("count for {k:?} is {} != {want}", sum.get_count(*k)));
                    ok = false;
                }
            }
            if sum.final_config != last_cfg {
                fail(res, "summary", "summary_config", "final_config is not the last LintConfigUpdate".into());
                ok = false;
            }
        }
    }
    ok
}

fn write_session(log: &mut Vec<u8>, recs: &[Record], seed: u64, f: &Faults, bufcap: Option<usize>) -> (io::Result<()>, FaultStats) {
    let stats = Stats { records: recs.to_vec() };
    let mut fw = FaultyWriter::new(log, seed, f.clone());
    let r = match bufcap {
        Some(cap) => {
            // as harper-ls does: BufWriter around the file, write, flush
            let mut bw = BufWriter::with_capacity(cap, &mut fw);
            let r = stats.write(&mut bw);
            match r {
                Ok(()) => bw.flush(),
                Err(e) => Err(e),
            }
        }
        None => stats.write(&mut fw),
    };
    (r, fw.st.clone())
}

fn read_log(log: &[u8], seed: u64, f: &Faults, bufcap: Option<usize>) -> (io::Result<Stats>, FaultStats) {
    let mut fr = FaultyReader::new(log, seed, f.clone());
    let r = match bufcap {
        Some(cap) => {
            let mut br = BufReader::with_capacity(cap, &mut fr);
            Stats::read(&mut br)
        }
        None => Stats::read(&mut fr),
    };
    (r, fr.st.clone())
}

fn add_stats(res: &mut RunResult, pfx: &str, st: &FaultStats) {
    res.count(&format!("{pfx}_calls"), st.calls);
    res.count(&format!("short_{pfx}"), st.short);
    res.count(&format!("eintr_{pfx}"), st.eintr);
    res.count(&format!("split_utf8_{pfx}"), st.split_utf8);
    res.count(&format!("one_byte_{pfx}"), st.one_byte);
}

pub fn run(job: &Job) -> RunResult {
    let mut res = RunResult::new(job);
    let mode = job.params.get("mode").and_then(|v| v.as_str()).unwrap_or("faulty").to_string();
    let mut wl = Rng::derive(job.seed, "workload");
    let mut fl = Rng::derive(job.seed, "faults");
    let small = mode == "enum";
    let sessions = gen_sessions(&mut wl, small);
    let all: Vec<Record> = sessions.iter().flatten().cloned().collect();
    let mut sig = fnv1a(serde_json::to_string(&sessions_view(&sessions)).unwrap().as_bytes());
    let mut evals = 0u64;

    let ctx = json!({"mode": mode, "seed": job.seed});
    if mode == "enum" {
        // reference bytes, fault-free
        let mut clean = vec![];
        for s in &sessions {
            let (r, _) = write_session(&mut clean, s, 0, &Faults::default(), None);
            if let Err(e) = r {
                res.harness(format!("fault-free write failed: {e}"));
                return res;
            }
        }
        let n = clean.len();
        let bufcap = *fl.pick(&[None, Some(1), Some(7), Some(64), Some(8192)]);
        // every split point as short-write boundary, as EINTR point, as read boundary, as read EINTR
        let per_session_len: Vec<usize> = sessions
            .iter()
            .map(|s| {
                let mut v = vec![];
                let _ = write_session(&mut v, s, 0, &Faults::default(), None);
                v.len()
            })
            .collect();
        for p in 1..n.max(1) {
            for variant in 0..4 {
                evals += 1;
                let mut log = vec![];
                let mut model = vec![];
                let mut off = 0usize;
                let mut wf_all = FaultStats::default();
                let mut failed = false;
                for (si, s) in sessions.iter().enumerate() {
                    let mut f = Faults::default();
                    let rel = p as isize - off as isize;
                    if rel > 0 && (rel as usize) < per_session_len[si] {
                        match variant {
                            0 => f.cut_at = Some(rel as usize),
                            1 => f.eintr_at = Some(rel as usize),
                            _ => {}
                        }
                    }
                    let (r, st) = write_session(&mut log, s, 1, &f, bufcap);
                    wf_all.short += st.short;
                    wf_all.eintr += st.eintr;
                    wf_all.split_utf8 += st.split_utf8;
                    wf_all.calls += st.calls;
                    if let Err(e) = r {
                        res.violate(Violation {
                            property: "C19".into(),
                            oracle: "C19.write_ok".into(),
                            class: "write_error".into(),
                            detail: format!("Stats::write returned {e} under a legal stream behaviour (split {p}, variant {variant})"),
                            facts: ctx.clone(),
                        });
                        failed = true;
                        break;
                    }
                    model.extend(s.iter().cloned());
                    off += per_session_len[si];
                }
                if failed {
                    break;
                }
                let mut rf = Faults::default();
                match variant {
                    2 => rf.cut_at = Some(p),
                    3 => rf.eintr_at = Some(p),
                    _ => {}
                }
                let (rb, rst) = read_log(&log, 2, &rf, if variant >= 2 { bufcap } else { None });
                add_stats(&mut res, "write", &wf_all);
                add_stats(&mut res, "read", &rst);
                let what = format!("enum split={p} variant={variant} bufcap={bufcap:?}");
                if !check_log(&mut res, &what, &model, &log, &rb, &json!({"mode":"enum","split":p,"variant":variant})) {
                    failed = true;
                }
                if log != clean && !failed {
                    res.violate(Violation {
                        property: "C19".into(),
                        oracle: "C19.bytes_stable".into(),
                        class: "bytes_differ".into(),
                        detail: format!("{what}: log bytes differ from the fault-free log"),
                        facts: ctx.clone(),
                    });
                }
                if failed {
                    break;
                }
            }
            if !res.violations.is_empty() {
                break;
            }
        }
        res.count("enum_split_points", n.saturating_sub(1) as u64);
        sig ^= mix_sig(bufcap.unwrap_or(0) as u64);
        res.nontrivial = n > 1;
    } else {
        let faulty = mode == "faulty";
        let mut log: Vec<u8> = vec![];
        let mut model: Vec<Record> = vec![];
        let mut fired = 0u64;
        for (si, s) in sessions.iter().enumerate() {
            evals += 1;
            let f = if faulty {
                Faults {
                    eintr_pm: *fl.pick(&[0, 50, 200, 500]),
                    short_pm: *fl.pick(&[0, 100, 500, 1000]),
                    max_chunk: *fl.pick(&[0, 0, 1, 2, 3, 16]),
                    ..Default::default()
                }
            } else {
                Faults::default()
            };
            let bufcap = if faulty { *fl.pick(&[None, Some(1), Some(2), Some(5), Some(64), Some(4096), Some(65536)]) } else { *fl.pick(&[None, Some(8192)]) };
            if !log.is_empty() {
                res.count("stats_appended_to_nonempty_log", 1);
            }
            let (r, st) = write_session(&mut log, s, fl.next_u64(), &f, bufcap);
            add_stats(&mut res, "write", &st);
            fired += st.short + st.eintr;
            sig = sig.wrapping_mul(0x100000001B3) ^ st.decisions;
            if let Err(e) = r {
                res.violate(Violation {
                    property: "C19".into(),
                    oracle: "C19.write_ok".into(),
                    class: "write_error".into(),
                    detail: format!("session {si}: Stats::write returned {e} under a legal stream behaviour"),
                    facts: ctx.clone(),
                });
                break;
            }
            model.extend(s.iter().cloned());
            // read back after every session: "append after append"
            let rf = if faulty {
                Faults {
                    eintr_pm: *fl.pick(&[0, 50, 300]),
                    short_pm: *fl.pick(&[0, 200, 1000]),
                    max_chunk: *fl.pick(&[0, 0, 1, 2, 3, 7]),
                    ..Default::default()
                }
            } else {
                Faults::default()
            };
            let rcap = if faulty { *fl.pick(&[None, Some(1), Some(3), Some(100), Some(8192)]) } else { None };
            let (rb, rst) = read_log(&log, fl.next_u64(), &rf, rcap);
            add_stats(&mut res, "read", &rst);
            fired += rst.short + rst.eintr;
            sig = sig.wrapping_mul(0x100000001B3) ^ rst.decisions;
            let what = format!("after session {si} ({} records so far)", model.len());
            if !check_log(&mut res, &what, &model, &log, &rb, &ctx) {
                break;
            }
        }
        res.count("sessions", sessions.len() as u64);
        res.count("records", all.len() as u64);
        res.nontrivial = if faulty { fired > 0 && !all.is_empty() } else { !all.is_empty() };
        res.count("faults_fired", fired);
    }
    res.count("evaluations", evals);
    res.steps = evals;
    res.signature = sig;
    res.log_hash = sig ^ fnv1a(format!("{:?}", res.counters).as_bytes()) ^ (res.violations.len() as u64);
    let view = json!({"engine":"io-sim","mode":mode,"seed":job.seed,"sessions":sessions_view(&sessions)});
    if job.want_trace || !res.violations.is_empty() {
        res.trace = Some(view.clone());
    }
    res.sample = Some(view);
    res
}

fn mix_sig(x: u64) -> u64 {
    crate::rng::mix64(x)
}

fn sessions_view(s: &[Vec<Record>]) -> serde_json::Value {
    json!(s.iter().map(|recs| recs.iter().map(|r| serde_json::to_value(r).unwrap()).collect::<Vec<_>>()).collect::<Vec<_>>())
}
