//! hsim — deterministic simulation with fault injection for Harper.
//!
//! `hsim check --prop <id> --tier quick|thorough`   run a property's check
//! `hsim replay <file>`                              re-execute a replay file
//! `hsim worker`                                     (internal) zygote process
#![allow(clippy::too_many_arguments, clippy::type_complexity)]

include!(concat!(env!("OUT_DIR"), "/ls_mods.rs"));

mod apisim;
mod cachesim;
mod check;
mod corpus;
mod lsp;
mod engines;
mod exec;
mod iosim;
mod job;
mod orch;
mod pipes;
mod props;
mod rng;
mod seam;
mod worker;

fn arg_val(args: &[String], key: &str) -> Option<String> {
    args.iter().position(|a| a == key).and_then(|i| args.get(i + 1).cloned())
}

fn main() {
    let args: Vec<String> = std::env::args().collect();
    let cmd = args.get(1).map(|s| s.as_str()).unwrap_or("");
    match cmd {
        "worker" => {
            std::panic::set_hook(Box::new(|info| {
                let loc = info.location().map(|l| format!("{}:{}", l.file(), l.line())).unwrap_or_default();
                *exec::LAST_PANIC_LOCATION.lock().unwrap_or_else(|e| e.into_inner()) = loc;
            }));
            worker::worker_main();
        }
        "check" => {
            let prop = arg_val(&args, "--prop").unwrap_or_default();
            let tier = arg_val(&args, "--tier")
                .or_else(|| std::env::var("VERIF_TIER").ok())
                .unwrap_or_else(|| "quick".into());
            let seed = arg_val(&args, "--seed")
                .or_else(|| std::env::var("VERIF_SEED").ok())
                .and_then(|s| s.trim().parse::<u64>().ok())
                .unwrap_or(check::DEFAULT_SEED);
            let workers = arg_val(&args, "--workers")
                .and_then(|s| s.parse().ok())
                .unwrap_or_else(|| std::thread::available_parallelism().map(|n| n.get()).unwrap_or(4).min(16));
            let scale = arg_val(&args, "--scale").and_then(|s| s.parse().ok()).unwrap_or(1.0);
            let o = check::Opts {
                prop,
                tier,
                seed,
                workers,
                scale,
                only_batch: arg_val(&args, "--batch"),
                write_evidence: !args.iter().any(|a| a == "--no-evidence"),
                hash_log: arg_val(&args, "--hash-log"),
                max_minimise: arg_val(&args, "--max-minimise").and_then(|s| s.parse().ok()).unwrap_or(300),
            };
            std::process::exit(check::run_check(&o));
        }
        "debug-lint" => {
            // hsim debug-lint <language id> <file>: lint a text the way the reference does, with a backtrace on panic
            unsafe { std::env::set_var("RUST_BACKTRACE", "1") };
            let lang = args.get(2).cloned().unwrap_or_default();
            let text = std::fs::read_to_string(args.get(3).cloned().unwrap_or_default()).unwrap_or_default();
            let words: Vec<String> = args.iter().skip(4).cloned().collect();
            match lsp::reference::lints_for(&text, &lang, &lsp::reference::Settings::default(), &words, &[]) {
                lsp::reference::Reference::Unsupported => println!("unsupported language"),
                lsp::reference::Reference::Lints(r) => {
                    if std::env::var("HSIM_SHOW_TOKENS").is_ok() {
                        for t in r.document.get_tokens() {
                            let txt: String = r.source[t.span.start..t.span.end.min(r.source.len())].iter().collect();
                            println!("token {:?} {:?} {}", t.span, txt, format!("{:?}", t.kind).chars().take(40).collect::<String>());
                        }
                    }
                    if let Ok(w) = std::env::var("HSIM_SHOW_TOKEN") {
                        for t in r.document.get_tokens() {
                            let txt: String = r.source[t.span.start..t.span.end.min(r.source.len())].iter().collect();
                            if txt.to_lowercase() == w.to_lowercase() {
                                println!("token {:?} {:?} {:?}", t.span, txt, t.kind);
                            }
                        }
                    }
                    for l in &r.lints {
                        println!("{:?} {} {:?}", l.span, l.message, l.suggestions.iter().map(|s| s.to_string()).collect::<Vec<_>>());
                    }
                }
            }
        }
        "replay" => {
            let Some(path) = args.get(2) else {
                eprintln!("usage: hsim replay <file>");
                std::process::exit(2);
            };
            std::process::exit(check::run_replay(path, 1));
        }
        _ => {
            eprintln!("usage: hsim check --prop <id> [--tier quick|thorough] [--seed n] | hsim replay <file>");
            std::process::exit(2);
        }
    }
}
