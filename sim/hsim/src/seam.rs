//! The libc seam.  Because std and every crate are linked statically into this
//! binary, the symbols defined here take precedence over libc's: every clock
//! read, random draw, socket call and file open made by Harper, tower-lsp, std,
//! uuid, chrono, … goes through the simulator.  With the seam off (the
//! orchestrator process) every call is forwarded unchanged by raw syscall.
//!
//! Nothing in here allocates or takes std locks: the log is a fixed static
//! buffer guarded by a spin flag.

#![allow(clippy::missing_safety_doc)]

use libc::{c_char, c_int, c_long, c_uint, c_void, mode_t, size_t, ssize_t};
use std::sync::atomic::{AtomicBool, AtomicI64, AtomicU64, AtomicUsize, Ordering};

static SEAM_ON: AtomicBool = AtomicBool::new(false);
/// Simulated nanoseconds since the simulated epoch.
static SIM_NANOS: AtomicI64 = AtomicI64::new(0);
/// State of the PRNG behind `getrandom`.
static RAND_STATE: AtomicU64 = AtomicU64::new(0x5EED_5EED_5EED_5EED);
/// Simulated epoch: 2023-11-14T22:13:20Z.
pub const EPOCH_SECS: i64 = 1_700_000_000;

pub static NET_CALLS: AtomicUsize = AtomicUsize::new(0);
pub static RANDOM_BYTES: AtomicUsize = AtomicUsize::new(0);
pub static CLOCK_READS: AtomicUsize = AtomicUsize::new(0);

pub fn enable(on: bool) {
    SEAM_ON.store(on, Ordering::SeqCst);
}

/// While > 0, file operations are the harness's own (editor model writing files,
/// oracle reading them) and are neither logged nor faulted.
static HARNESS_DEPTH: AtomicUsize = AtomicUsize::new(0);

/// Run `f` as the harness: its file-system activity is not attributed to the simulated code.
pub fn as_harness<T>(f: impl FnOnce() -> T) -> T {
    HARNESS_DEPTH.fetch_add(1, Ordering::SeqCst);
    let r = f();
    HARNESS_DEPTH.fetch_sub(1, Ordering::SeqCst);
    r
}
fn observing() -> bool {
    SEAM_ON.load(Ordering::Relaxed) && HARNESS_DEPTH.load(Ordering::Relaxed) == 0
}
pub fn is_on() -> bool {
    SEAM_ON.load(Ordering::Relaxed)
}
pub fn set_time_nanos(n: i64) {
    SIM_NANOS.store(n, Ordering::SeqCst);
}
pub fn advance_nanos(d: i64) -> i64 {
    SIM_NANOS.fetch_add(d, Ordering::SeqCst) + d
}
pub fn now_nanos() -> i64 {
    SIM_NANOS.load(Ordering::SeqCst)
}
pub fn seed_random(s: u64) {
    RAND_STATE.store(s, Ordering::SeqCst);
}

// ---------------------------------------------------------------- the log

const LOG_CAP: usize = 1 << 20;
static mut LOG: [u8; LOG_CAP] = [0; LOG_CAP];
static LOG_LEN: AtomicUsize = AtomicUsize::new(0);
static LOG_LOCK: AtomicBool = AtomicBool::new(false);
static LOG_OVERFLOW: AtomicBool = AtomicBool::new(false);

fn log_lock() {
    while LOG_LOCK
        .compare_exchange_weak(false, true, Ordering::Acquire, Ordering::Relaxed)
        .is_err()
    {
        std::hint::spin_loop();
    }
}
fn log_unlock() {
    LOG_LOCK.store(false, Ordering::Release);
}

unsafe fn log_parts(parts: &[&[u8]]) {
    log_lock();
    let mut len = LOG_LEN.load(Ordering::Relaxed);
    let need: usize = parts.iter().map(|p| p.len()).sum::<usize>() + 1;
    if len + need > LOG_CAP {
        LOG_OVERFLOW.store(true, Ordering::Relaxed);
    } else {
        let base = std::ptr::addr_of_mut!(LOG) as *mut u8;
        for p in parts {
            unsafe { std::ptr::copy_nonoverlapping(p.as_ptr(), base.add(len), p.len()) };
            len += p.len();
        }
        unsafe { *base.add(len) = b'\n' };
        len += 1;
        LOG_LEN.store(len, Ordering::Relaxed);
    }
    log_unlock();
}

unsafe fn cstr_bytes<'a>(p: *const c_char) -> &'a [u8] {
    if p.is_null() {
        return b"(null)";
    }
    unsafe { std::ffi::CStr::from_ptr(p).to_bytes() }
}

/// Entries recorded since the last call: `NET <what>`, `W <path>` (open for
/// writing / create), `MK <path>`, `RM <path>`, `MV <from>\t<to>`.
pub fn take_log() -> (Vec<String>, bool) {
    log_lock();
    let len = LOG_LEN.swap(0, Ordering::Relaxed);
    let text = unsafe {
        let base = std::ptr::addr_of!(LOG) as *const u8;
        std::slice::from_raw_parts(base, len).to_vec()
    };
    let of = LOG_OVERFLOW.swap(false, Ordering::Relaxed);
    log_unlock();
    let s = String::from_utf8_lossy(&text);
    (s.lines().map(|l| l.to_string()).collect(), of)
}

fn set_errno(e: c_int) {
    unsafe { *libc::__errno_location() = e };
}

// ---------------------------------------------------------------- clock

#[unsafe(no_mangle)]
pub unsafe extern "C" fn clock_gettime(clk: libc::clockid_t, ts: *mut libc::timespec) -> c_int {
    if !is_on() {
        return unsafe { libc::syscall(libc::SYS_clock_gettime, clk as c_long, ts) as c_int };
    }
    CLOCK_READS.fetch_add(1, Ordering::Relaxed);
    let n = SIM_NANOS.load(Ordering::SeqCst);
    let (mut secs, nanos) = (n.div_euclid(1_000_000_000), n.rem_euclid(1_000_000_000));
    match clk {
        libc::CLOCK_REALTIME | libc::CLOCK_REALTIME_COARSE | libc::CLOCK_TAI => secs += EPOCH_SECS,
        _ => secs += 1_000, // monotonic clocks: an arbitrary fixed boot offset
    }
    if !ts.is_null() {
        unsafe {
            (*ts).tv_sec = secs as libc::time_t;
            (*ts).tv_nsec = nanos as c_long;
        }
    }
    0
}

#[unsafe(no_mangle)]
pub unsafe extern "C" fn gettimeofday(tv: *mut libc::timeval, _tz: *mut c_void) -> c_int {
    if !is_on() {
        return unsafe { libc::syscall(libc::SYS_gettimeofday, tv, _tz) as c_int };
    }
    CLOCK_READS.fetch_add(1, Ordering::Relaxed);
    let n = SIM_NANOS.load(Ordering::SeqCst);
    if !tv.is_null() {
        unsafe {
            (*tv).tv_sec = (n.div_euclid(1_000_000_000) + EPOCH_SECS) as libc::time_t;
            (*tv).tv_usec = (n.rem_euclid(1_000_000_000) / 1000) as libc::suseconds_t;
        }
    }
    0
}

#[unsafe(no_mangle)]
pub unsafe extern "C" fn time(t: *mut libc::time_t) -> libc::time_t {
    let v = if is_on() {
        CLOCK_READS.fetch_add(1, Ordering::Relaxed);
        (SIM_NANOS.load(Ordering::SeqCst).div_euclid(1_000_000_000) + EPOCH_SECS) as libc::time_t
    } else {
        let mut ts = libc::timespec { tv_sec: 0, tv_nsec: 0 };
        unsafe { libc::syscall(libc::SYS_clock_gettime, libc::CLOCK_REALTIME as c_long, &mut ts) };
        ts.tv_sec
    };
    if !t.is_null() {
        unsafe { *t = v };
    }
    v
}

// ---------------------------------------------------------------- randomness

fn next_rand() -> u64 {
    let mut s = RAND_STATE.load(Ordering::Relaxed);
    s = s.wrapping_add(0x9E37_79B9_7F4A_7C15);
    RAND_STATE.store(s, Ordering::Relaxed);
    let mut z = s;
    z = (z ^ (z >> 30)).wrapping_mul(0xBF58_476D_1CE4_E5B9);
    z = (z ^ (z >> 27)).wrapping_mul(0x94D0_49BB_1331_11EB);
    z ^ (z >> 31)
}

#[unsafe(no_mangle)]
pub unsafe extern "C" fn getrandom(buf: *mut c_void, len: size_t, flags: c_uint) -> ssize_t {
    if !is_on() {
        return unsafe { libc::syscall(libc::SYS_getrandom, buf, len, flags) as ssize_t };
    }
    RANDOM_BYTES.fetch_add(len, Ordering::Relaxed);
    let p = buf as *mut u8;
    let mut i = 0;
    while i < len {
        let r = next_rand().to_le_bytes();
        let mut k = 0;
        while k < 8 && i < len {
            unsafe { *p.add(i) = r[k] };
            i += 1;
            k += 1;
        }
    }
    len as ssize_t
}

#[unsafe(no_mangle)]
pub unsafe extern "C" fn getentropy(buf: *mut c_void, len: size_t) -> c_int {
    unsafe { getrandom(buf, len, 0) };
    0
}

// ---------------------------------------------------------------- network: record and refuse

unsafe fn net(what: &[u8], detail: &[u8]) -> c_int {
    NET_CALLS.fetch_add(1, Ordering::Relaxed);
    unsafe { log_parts(&[b"NET ", what, b" ", detail]) };
    set_errno(libc::EACCES);
    -1
}

#[unsafe(no_mangle)]
pub unsafe extern "C" fn socket(domain: c_int, ty: c_int, proto: c_int) -> c_int {
    if !is_on() {
        return unsafe { libc::syscall(libc::SYS_socket, domain, ty, proto) as c_int };
    }
    let d: &[u8] = match domain {
        libc::AF_INET => b"AF_INET",
        libc::AF_INET6 => b"AF_INET6",
        libc::AF_UNIX => b"AF_UNIX",
        libc::AF_NETLINK => b"AF_NETLINK",
        _ => b"AF_?",
    };
    unsafe { net(b"socket", d) }
}
#[unsafe(no_mangle)]
pub unsafe extern "C" fn connect(fd: c_int, addr: *const libc::sockaddr, len: libc::socklen_t) -> c_int {
    if !is_on() {
        return unsafe { libc::syscall(libc::SYS_connect, fd, addr, len) as c_int };
    }
    unsafe { net(b"connect", b"") }
}
#[unsafe(no_mangle)]
pub unsafe extern "C" fn bind(fd: c_int, addr: *const libc::sockaddr, len: libc::socklen_t) -> c_int {
    if !is_on() {
        return unsafe { libc::syscall(libc::SYS_bind, fd, addr, len) as c_int };
    }
    unsafe { net(b"bind", b"") }
}
#[unsafe(no_mangle)]
pub unsafe extern "C" fn listen(fd: c_int, backlog: c_int) -> c_int {
    if !is_on() {
        return unsafe { libc::syscall(libc::SYS_listen, fd, backlog) as c_int };
    }
    unsafe { net(b"listen", b"") }
}
#[unsafe(no_mangle)]
pub unsafe extern "C" fn sendto(
    fd: c_int,
    buf: *const c_void,
    len: size_t,
    flags: c_int,
    addr: *const libc::sockaddr,
    alen: libc::socklen_t,
) -> ssize_t {
    if !is_on() {
        return unsafe { libc::syscall(libc::SYS_sendto, fd, buf, len, flags, addr, alen) as ssize_t };
    }
    unsafe { net(b"sendto", b"") as ssize_t }
}
#[unsafe(no_mangle)]
pub unsafe extern "C" fn sendmsg(fd: c_int, msg: *const libc::msghdr, flags: c_int) -> ssize_t {
    if !is_on() {
        return unsafe { libc::syscall(libc::SYS_sendmsg, fd, msg, flags) as ssize_t };
    }
    unsafe { net(b"sendmsg", b"") as ssize_t }
}
#[unsafe(no_mangle)]
pub unsafe extern "C" fn sendmmsg(fd: c_int, msg: *mut libc::mmsghdr, vlen: c_uint, flags: c_int) -> c_int {
    if !is_on() {
        return unsafe { libc::syscall(libc::SYS_sendmmsg, fd, msg, vlen, flags) as c_int };
    }
    unsafe { net(b"sendmmsg", b"") }
}
#[unsafe(no_mangle)]
pub unsafe extern "C" fn getaddrinfo(
    node: *const c_char,
    _service: *const c_char,
    _hints: *const libc::addrinfo,
    _res: *mut *mut libc::addrinfo,
) -> c_int {
    // Never forwarded: neither the orchestrator nor the simulated code has any
    // business resolving names.
    NET_CALLS.fetch_add(1, Ordering::Relaxed);
    unsafe { log_parts(&[b"NET getaddrinfo ", cstr_bytes(node)]) };
    libc::EAI_FAIL
}
#[unsafe(no_mangle)]
pub unsafe extern "C" fn gethostbyname(name: *const c_char) -> *mut libc::hostent {
    NET_CALLS.fetch_add(1, Ordering::Relaxed);
    unsafe { log_parts(&[b"NET gethostbyname ", cstr_bytes(name)]) };
    std::ptr::null_mut()
}

// ---------------------------------------------------------------- files: record and forward

const WRITE_FLAGS: c_int = libc::O_WRONLY | libc::O_RDWR | libc::O_CREAT | libc::O_TRUNC | libc::O_APPEND;

/// File descriptors opened for writing by simulated code (bitmap over fd numbers).
static TRACKED_W: [AtomicBool; 1024] = [const { AtomicBool::new(false) }; 1024];
/// File descriptors opened read-only by simulated code.
static TRACKED_R: [AtomicBool; 1024] = [const { AtomicBool::new(false) }; 1024];

fn track(fd: c_int, flags: c_int) {
    if (0..1024).contains(&fd) {
        let w = flags & WRITE_FLAGS != 0;
        TRACKED_W[fd as usize].store(w, Ordering::Relaxed);
        TRACKED_R[fd as usize].store(!w, Ordering::Relaxed);
    }
}

unsafe fn do_open(dirfd: c_int, path: *const c_char, flags: c_int, mode: mode_t) -> c_int {
    let fd = unsafe { libc::syscall(libc::SYS_openat, dirfd, path, flags, mode as c_uint) as c_int };
    if observing() {
        if flags & WRITE_FLAGS != 0 {
            unsafe { log_parts(&[b"W ", cstr_bytes(path)]) };
        }
        if fd >= 0 {
            track(fd, flags);
        }
    }
    fd
}

#[unsafe(no_mangle)]
pub unsafe extern "C" fn open64(path: *const c_char, flags: c_int, mode: mode_t) -> c_int {
    unsafe { do_open(libc::AT_FDCWD, path, flags, mode) }
}
#[unsafe(no_mangle)]
pub unsafe extern "C" fn open(path: *const c_char, flags: c_int, mode: mode_t) -> c_int {
    unsafe { do_open(libc::AT_FDCWD, path, flags, mode) }
}
#[unsafe(no_mangle)]
pub unsafe extern "C" fn openat(dirfd: c_int, path: *const c_char, flags: c_int, mode: mode_t) -> c_int {
    unsafe { do_open(dirfd, path, flags, mode) }
}
#[unsafe(no_mangle)]
pub unsafe extern "C" fn openat64(dirfd: c_int, path: *const c_char, flags: c_int, mode: mode_t) -> c_int {
    unsafe { do_open(dirfd, path, flags, mode) }
}
#[unsafe(no_mangle)]
pub unsafe extern "C" fn creat(path: *const c_char, mode: mode_t) -> c_int {
    unsafe { do_open(libc::AT_FDCWD, path, libc::O_CREAT | libc::O_WRONLY | libc::O_TRUNC, mode) }
}
#[unsafe(no_mangle)]
pub unsafe extern "C" fn creat64(path: *const c_char, mode: mode_t) -> c_int {
    unsafe { do_open(libc::AT_FDCWD, path, libc::O_CREAT | libc::O_WRONLY | libc::O_TRUNC, mode) }
}
#[unsafe(no_mangle)]
pub unsafe extern "C" fn close(fd: c_int) -> c_int {
    if (0..1024).contains(&fd) {
        TRACKED_W[fd as usize].store(false, Ordering::Relaxed);
        TRACKED_R[fd as usize].store(false, Ordering::Relaxed);
    }
    unsafe { libc::syscall(libc::SYS_close, fd) as c_int }
}
#[unsafe(no_mangle)]
pub unsafe extern "C" fn mkdir(path: *const c_char, mode: mode_t) -> c_int {
    let r = unsafe { libc::syscall(libc::SYS_mkdirat, libc::AT_FDCWD, path, mode as c_uint) as c_int };
    if observing() && r == 0 {
        unsafe { log_parts(&[b"MK ", cstr_bytes(path)]) };
    }
    r
}
#[unsafe(no_mangle)]
pub unsafe extern "C" fn unlink(path: *const c_char) -> c_int {
    if observing() {
        unsafe { log_parts(&[b"RM ", cstr_bytes(path)]) };
    }
    unsafe { libc::syscall(libc::SYS_unlinkat, libc::AT_FDCWD, path, 0) as c_int }
}
#[unsafe(no_mangle)]
pub unsafe extern "C" fn unlinkat(dirfd: c_int, path: *const c_char, flags: c_int) -> c_int {
    if observing() {
        unsafe { log_parts(&[b"RM ", cstr_bytes(path)]) };
    }
    unsafe { libc::syscall(libc::SYS_unlinkat, dirfd, path, flags) as c_int }
}
#[unsafe(no_mangle)]
pub unsafe extern "C" fn rmdir(path: *const c_char) -> c_int {
    if observing() {
        unsafe { log_parts(&[b"RM ", cstr_bytes(path)]) };
    }
    unsafe { libc::syscall(libc::SYS_unlinkat, libc::AT_FDCWD, path, libc::AT_REMOVEDIR) as c_int }
}
#[unsafe(no_mangle)]
pub unsafe extern "C" fn rename(from: *const c_char, to: *const c_char) -> c_int {
    if observing() {
        unsafe { log_parts(&[b"MV ", cstr_bytes(from), b"\t", cstr_bytes(to)]) };
    }
    unsafe { libc::syscall(libc::SYS_renameat, libc::AT_FDCWD, from, libc::AT_FDCWD, to) as c_int }
}
#[unsafe(no_mangle)]
pub unsafe extern "C" fn renameat(fd1: c_int, from: *const c_char, fd2: c_int, to: *const c_char) -> c_int {
    if observing() {
        unsafe { log_parts(&[b"MV ", cstr_bytes(from), b"\t", cstr_bytes(to)]) };
    }
    unsafe { libc::syscall(libc::SYS_renameat, fd1, from, fd2, to) as c_int }
}
// ---------------------------------------------------------------- programs: record and refuse

type SpawnFn = unsafe extern "C" fn(*mut libc::pid_t, *const c_char, *const c_void, *const c_void, *const *mut c_char, *const *mut c_char) -> c_int;

unsafe fn next_spawn(name: &[u8]) -> Option<SpawnFn> {
    let p = unsafe { libc::dlsym(libc::RTLD_NEXT, name.as_ptr() as *const c_char) };
    if p.is_null() { None } else { Some(unsafe { std::mem::transmute::<*mut c_void, SpawnFn>(p) }) }
}

/// Simulated code has no business starting other programs (what they would do is outside the
/// simulation): recorded as `EX <path>` and refused.  The harness's own worker processes pass.
#[unsafe(no_mangle)]
pub unsafe extern "C" fn posix_spawn(pid: *mut libc::pid_t, path: *const c_char, fa: *const c_void, attr: *const c_void, argv: *const *mut c_char, envp: *const *mut c_char) -> c_int {
    if observing() {
        unsafe { log_parts(&[b"EX ", cstr_bytes(path)]) };
        return libc::ENOENT;
    }
    match unsafe { next_spawn(b"posix_spawn\0") } {
        Some(f) => unsafe { f(pid, path, fa, attr, argv, envp) },
        None => libc::ENOSYS,
    }
}
#[unsafe(no_mangle)]
pub unsafe extern "C" fn posix_spawnp(pid: *mut libc::pid_t, file: *const c_char, fa: *const c_void, attr: *const c_void, argv: *const *mut c_char, envp: *const *mut c_char) -> c_int {
    if observing() {
        unsafe { log_parts(&[b"EX ", cstr_bytes(file)]) };
        return libc::ENOENT;
    }
    match unsafe { next_spawn(b"posix_spawnp\0") } {
        Some(f) => unsafe { f(pid, file, fa, attr, argv, envp) },
        None => libc::ENOSYS,
    }
}
#[unsafe(no_mangle)]
pub unsafe extern "C" fn execve(path: *const c_char, argv: *const *const c_char, envp: *const *const c_char) -> c_int {
    if observing() {
        unsafe { log_parts(&[b"EX ", cstr_bytes(path)]) };
        set_errno(libc::ENOENT);
        return -1;
    }
    unsafe { libc::syscall(libc::SYS_execve, path, argv, envp) as c_int }
}
#[unsafe(no_mangle)]
pub unsafe extern "C" fn execvp(file: *const c_char, argv: *const *const c_char) -> c_int {
    if observing() {
        unsafe { log_parts(&[b"EX ", cstr_bytes(file)]) };
        set_errno(libc::ENOENT);
        return -1;
    }
    type ExecvpFn = unsafe extern "C" fn(*const c_char, *const *const c_char) -> c_int;
    let p = unsafe { libc::dlsym(libc::RTLD_NEXT, b"execvp\0".as_ptr() as *const c_char) };
    if p.is_null() {
        set_errno(libc::ENOSYS);
        return -1;
    }
    unsafe { std::mem::transmute::<*mut c_void, ExecvpFn>(p)(file, argv) }
}

/// A change made through a descriptor (permissions, length, timestamps): recorded under the
/// name the descriptor was opened with, as seen from the simulated world.
fn log_fd_change(fd: c_int) {
    if !observing() {
        return;
    }
    let path = as_harness(|| {
        let real = std::fs::read_link(format!("/proc/self/fd/{fd}")).ok()?;
        let cwd = std::env::current_dir().ok()?;
        let s = real.to_string_lossy().to_string();
        let c = cwd.to_string_lossy().to_string();
        Some(match s.strip_prefix(&format!("{c}/")) {
            Some(rest) => format!("/proc/self/cwd/{rest}"),
            None => s,
        })
    });
    if let Some(p) = path {
        unsafe { log_parts(&[b"W ", p.as_bytes()]) };
    }
}
#[unsafe(no_mangle)]
pub unsafe extern "C" fn fchmod(fd: c_int, mode: mode_t) -> c_int {
    log_fd_change(fd);
    unsafe { libc::syscall(libc::SYS_fchmod, fd, mode as c_uint) as c_int }
}
#[unsafe(no_mangle)]
pub unsafe extern "C" fn ftruncate(fd: c_int, len: libc::off_t) -> c_int {
    log_fd_change(fd);
    unsafe { libc::syscall(libc::SYS_ftruncate, fd, len) as c_int }
}
#[unsafe(no_mangle)]
pub unsafe extern "C" fn ftruncate64(fd: c_int, len: libc::off64_t) -> c_int {
    log_fd_change(fd);
    unsafe { libc::syscall(libc::SYS_ftruncate, fd, len) as c_int }
}
#[unsafe(no_mangle)]
pub unsafe extern "C" fn futimens(fd: c_int, times: *const libc::timespec) -> c_int {
    log_fd_change(fd);
    unsafe { libc::syscall(libc::SYS_utimensat, fd, std::ptr::null::<c_char>(), times, 0) as c_int }
}
#[unsafe(no_mangle)]
pub unsafe extern "C" fn renameat2(fd1: c_int, from: *const c_char, fd2: c_int, to: *const c_char, flags: c_uint) -> c_int {
    if observing() {
        unsafe { log_parts(&[b"MV ", cstr_bytes(from), b"\t", cstr_bytes(to)]) };
    }
    unsafe { libc::syscall(libc::SYS_renameat2, fd1, from, fd2, to, flags) as c_int }
}
#[unsafe(no_mangle)]
pub unsafe extern "C" fn mkdirat(dirfd: c_int, path: *const c_char, mode: mode_t) -> c_int {
    let r = unsafe { libc::syscall(libc::SYS_mkdirat, dirfd, path, mode as c_uint) as c_int };
    if observing() && r == 0 {
        unsafe { log_parts(&[b"MK ", cstr_bytes(path)]) };
    }
    r
}
#[unsafe(no_mangle)]
pub unsafe extern "C" fn truncate(path: *const c_char, len: libc::off_t) -> c_int {
    if observing() {
        unsafe { log_parts(&[b"W ", cstr_bytes(path)]) };
    }
    unsafe { libc::syscall(libc::SYS_truncate, path, len) as c_int }
}
#[unsafe(no_mangle)]
pub unsafe extern "C" fn truncate64(path: *const c_char, len: libc::off64_t) -> c_int {
    if observing() {
        unsafe { log_parts(&[b"W ", cstr_bytes(path)]) };
    }
    unsafe { libc::syscall(libc::SYS_truncate, path, len) as c_int }
}
#[unsafe(no_mangle)]
pub unsafe extern "C" fn chmod(path: *const c_char, mode: mode_t) -> c_int {
    if observing() {
        unsafe { log_parts(&[b"W ", cstr_bytes(path)]) };
    }
    unsafe { libc::syscall(libc::SYS_fchmodat, libc::AT_FDCWD, path, mode as c_uint) as c_int }
}
#[unsafe(no_mangle)]
pub unsafe extern "C" fn utimensat(dirfd: c_int, path: *const c_char, times: *const libc::timespec, flags: c_int) -> c_int {
    if observing() && !path.is_null() {
        unsafe { log_parts(&[b"W ", cstr_bytes(path)]) };
    }
    unsafe { libc::syscall(libc::SYS_utimensat, dirfd, path, times, flags) as c_int }
}
#[unsafe(no_mangle)]
pub unsafe extern "C" fn symlinkat(target: *const c_char, dirfd: c_int, link: *const c_char) -> c_int {
    if observing() {
        unsafe { log_parts(&[b"W ", cstr_bytes(link)]) };
    }
    unsafe { libc::syscall(libc::SYS_symlinkat, target, dirfd, link) as c_int }
}
#[unsafe(no_mangle)]
pub unsafe extern "C" fn linkat(fd1: c_int, from: *const c_char, fd2: c_int, to: *const c_char, flags: c_int) -> c_int {
    if observing() {
        unsafe { log_parts(&[b"W ", cstr_bytes(to)]) };
    }
    unsafe { libc::syscall(libc::SYS_linkat, fd1, from, fd2, to, flags) as c_int }
}
#[unsafe(no_mangle)]
pub unsafe extern "C" fn symlink(target: *const c_char, link: *const c_char) -> c_int {
    if observing() {
        unsafe { log_parts(&[b"W ", cstr_bytes(link)]) };
    }
    unsafe { libc::syscall(libc::SYS_symlinkat, target, libc::AT_FDCWD, link) as c_int }
}
#[unsafe(no_mangle)]
pub unsafe extern "C" fn link(from: *const c_char, to: *const c_char) -> c_int {
    if observing() {
        unsafe { log_parts(&[b"W ", cstr_bytes(to)]) };
    }
    unsafe { libc::syscall(libc::SYS_linkat, libc::AT_FDCWD, from, libc::AT_FDCWD, to, 0) as c_int }
}

// ---------------------------------------------------------------- stream faults on tracked descriptors

/// Fault plan for `read`/`write` on descriptors opened by simulated code:
/// a small PRNG decides per call between pass-through, a short transfer, and
/// `EINTR`.  Rates are per-mille; 0 disables.
static IO_FAULT_STATE: AtomicU64 = AtomicU64::new(0);
static IO_SHORT_PM: AtomicUsize = AtomicUsize::new(0);
static IO_EINTR_PM: AtomicUsize = AtomicUsize::new(0);
pub static IO_SHORT_WRITES: AtomicUsize = AtomicUsize::new(0);
pub static IO_SHORT_READS: AtomicUsize = AtomicUsize::new(0);
pub static IO_EINTRS: AtomicUsize = AtomicUsize::new(0);

pub fn set_io_faults(seed: u64, short_pm: usize, eintr_pm: usize) {
    IO_FAULT_STATE.store(seed | 1, Ordering::SeqCst);
    IO_SHORT_PM.store(short_pm, Ordering::SeqCst);
    IO_EINTR_PM.store(eintr_pm, Ordering::SeqCst);
}

fn io_rand() -> u64 {
    let mut s = IO_FAULT_STATE.load(Ordering::Relaxed);
    s ^= s << 13;
    s ^= s >> 7;
    s ^= s << 17;
    IO_FAULT_STATE.store(s, Ordering::Relaxed);
    s
}

/// 0 = pass, 1 = short, 2 = EINTR
fn io_decide() -> (u8, u64) {
    let sp = IO_SHORT_PM.load(Ordering::Relaxed);
    let ep = IO_EINTR_PM.load(Ordering::Relaxed);
    if sp == 0 && ep == 0 {
        return (0, 0);
    }
    let r = io_rand();
    let x = (r % 1000) as usize;
    if x < ep {
        (2, r)
    } else if x < ep + sp {
        (1, r >> 16)
    } else {
        (0, 0)
    }
}

#[unsafe(no_mangle)]
pub unsafe extern "C" fn write(fd: c_int, buf: *const c_void, count: size_t) -> ssize_t {
    let mut n = count;
    if observing() && (0..1024).contains(&fd) && TRACKED_W[fd as usize].load(Ordering::Relaxed) {
        match io_decide() {
            (2, _) => {
                IO_EINTRS.fetch_add(1, Ordering::Relaxed);
                set_errno(libc::EINTR);
                return -1;
            }
            (1, r) if count > 1 => {
                IO_SHORT_WRITES.fetch_add(1, Ordering::Relaxed);
                n = 1 + (r as usize % (count - 1));
            }
            _ => {}
        }
    }
    unsafe { libc::syscall(libc::SYS_write, fd, buf, n) as ssize_t }
}

#[unsafe(no_mangle)]
pub unsafe extern "C" fn read(fd: c_int, buf: *mut c_void, count: size_t) -> ssize_t {
    let mut n = count;
    if observing() && (0..1024).contains(&fd) && TRACKED_R[fd as usize].load(Ordering::Relaxed) {
        match io_decide() {
            (2, _) => {
                IO_EINTRS.fetch_add(1, Ordering::Relaxed);
                set_errno(libc::EINTR);
                return -1;
            }
            (1, r) if count > 1 => {
                IO_SHORT_READS.fetch_add(1, Ordering::Relaxed);
                n = 1 + (r as usize % (count - 1));
            }
            _ => {}
        }
    }
    unsafe { libc::syscall(libc::SYS_read, fd, buf, n) as ssize_t }
}


/// C10 for the library and the JS-facing API: linting through them must not touch the network
/// and must not create, modify or remove any file at all (there are no configured files here).
pub fn library_closed_world_check(job: &crate::job::Job, res: &mut crate::job::RunResult) {
    let (lines, overflow) = take_log();
    if job.prop != "C10" {
        return;
    }
    if overflow {
        res.harness("seam log overflow");
    }
    res.count("c10_library_runs_checked", 1);
    let bad: Vec<String> = lines.into_iter().filter(|l| l.starts_with("NET ") || l.starts_with("EX ") || l.starts_with("W ") || l.starts_with("MK ") || l.starts_with("RM ") || l.starts_with("MV ")).collect();
    if !bad.is_empty() {
        let net = bad.iter().any(|b| b.starts_with("NET "));
        let ex = bad.iter().any(|b| b.starts_with("EX "));
        res.violate(crate::job::Violation {
            property: "C10".into(),
            oracle: if net { "C10.no_network".into() } else if ex { "C10.no_helper_program".into() } else { "C10.writes_confined".into() },
            class: if net { "network_call".into() } else if ex { "program_started".into() } else { "write_outside_configured".into() },
            detail: format!("while linting through the library / the JS-facing API ({}), Harper {}: {:?}", job.engine, if net { "made a network call" } else if ex { "started another program" } else { "created or modified files" }, bad.iter().take(6).collect::<Vec<_>>()),
            facts: serde_json::json!({"engine": job.engine}),
        });
    }
}
