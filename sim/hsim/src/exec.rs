//! A runtime-less executor for one root future.  The waker only sets a flag;
//! "poll until the flag stays clear" is the simulator's quiescence test.

use std::future::Future;
use std::pin::Pin;
use std::sync::Arc;
use std::sync::atomic::{AtomicBool, Ordering};
use std::task::{Context, Poll, Wake, Waker};

/// Source location of the most recent panic (set by the worker's panic hook).
pub static LAST_PANIC_LOCATION: std::sync::Mutex<String> = std::sync::Mutex::new(String::new());

pub struct Flag(pub AtomicBool);

impl Wake for Flag {
    fn wake(self: Arc<Self>) {
        self.0.store(true, Ordering::SeqCst);
    }
    fn wake_by_ref(self: &Arc<Self>) {
        self.0.store(true, Ordering::SeqCst);
    }
}

pub struct Root<'a> {
    /// A current-thread tokio runtime whose context is entered while the server is polled, so
    /// that code which calls `tokio::spawn`, `spawn_blocking`, `tokio::time` or `tokio::net`
    /// finds a runtime instead of panicking.  harper-ls uses none of these today; tasks it
    /// might spawn are driven after every poll of the root future.
    rt: Option<tokio::runtime::Runtime>,
    fut: Option<Pin<Box<dyn Future<Output = ()> + 'a>>>,
    flag: Arc<Flag>,
    waker: Waker,
    pub polls: u64,
}

pub enum PollOutcome {
    /// The future has nothing more to do until an external event arrives.
    Idle,
    /// The future completed.
    Done,
    /// The future kept waking itself beyond the cap (livelock inside one step).
    Spinning,
    /// The future panicked while being polled.
    Panicked(String),
}

impl<'a> Root<'a> {
    pub fn new(fut: Pin<Box<dyn Future<Output = ()> + 'a>>) -> Self {
        let flag = Arc::new(Flag(AtomicBool::new(true)));
        let waker = Waker::from(flag.clone());
        let rt = tokio::runtime::Builder::new_current_thread().enable_all().build().ok();
        Root { rt, fut: Some(fut), flag, waker, polls: 0 }
    }

    pub fn is_done(&self) -> bool {
        self.fut.is_none()
    }

    /// Mark the root as needing a poll (an external event happened).
    pub fn kick(&self) {
        self.flag.0.store(true, Ordering::SeqCst);
    }

    /// Poll until the wake flag stays clear.
    pub fn run_until_idle(&mut self, cap: u32) -> PollOutcome {
        let mut n = 0;
        loop {
            let Some(fut) = self.fut.as_mut() else { return PollOutcome::Done };
            if !self.flag.0.swap(false, Ordering::SeqCst) {
                // let tasks the server may have spawned run; they may wake the root
                let mut drove = false;
                if let Some(rt) = self.rt.as_ref() {
                    if rt.metrics().num_alive_tasks() > 0 {
                        let r = std::panic::catch_unwind(std::panic::AssertUnwindSafe(|| {
                            rt.block_on(async {
                                for _ in 0..8 {
                                    tokio::task::yield_now().await;
                                }
                            })
                        }));
                        if let Err(p) = r {
                            let msg = p.downcast_ref::<&str>().map(|s| s.to_string()).or_else(|| p.downcast_ref::<String>().cloned()).unwrap_or_else(|| "panic".into());
                            return PollOutcome::Panicked(format!("in a spawned task: {msg}"));
                        }
                        drove = true;
                    }
                }
                if drove && self.flag.0.load(Ordering::SeqCst) {
                    continue;
                }
                return PollOutcome::Idle;
            }
            n += 1;
            if n > cap {
                return PollOutcome::Spinning;
            }
            self.polls += 1;
            let mut cx = Context::from_waker(&self.waker);
            let _guard = self.rt.as_ref().map(|rt| rt.enter());
            let r = std::panic::catch_unwind(std::panic::AssertUnwindSafe(|| fut.as_mut().poll(&mut cx)));
            match r {
                Ok(Poll::Ready(())) => {
                    self.fut = None;
                    return PollOutcome::Done;
                }
                Ok(Poll::Pending) => {}
                Err(p) => {
                    // The future is in an unknown state: never poll it again, and
                    // leak it rather than run its destructors.
                    let f = self.fut.take();
                    std::mem::forget(f);
                    let msg = if let Some(s) = p.downcast_ref::<&str>() {
                        s.to_string()
                    } else if let Some(s) = p.downcast_ref::<String>() {
                        s.clone()
                    } else {
                        "panic".to_string()
                    };
                    return PollOutcome::Panicked(msg);
                }
            }
        }
    }

    /// "Kill the process": drop the future without polling it again.
    pub fn kill(&mut self) {
        self.fut = None;
        // spawned tasks die with the process
        if let Some(rt) = self.rt.take() {
            rt.shutdown_background();
        }
    }
}
