//! `cache-sim` (C05): long-lived linters — a bare `LintGroup`, a `LintGroup`
//! driven the way harper-ls's `DocumentState` drives it, and a
//! `harper_wasm::Linter` serving plain text and Markdown from one instance —
//! living on a pool of real threads of which a baton releases exactly one at a
//! time, inside a process whose hash universe is a run parameter.
//!
//! After every lint the complete result (spans, kinds, messages, suggestions,
//! priorities, order) must equal that of a freshly built linter of the same
//! kind, dictionary, dialect and configuration, run on a freshly spawned thread.
//! The orchestrator additionally runs every history in several hash universes
//! and requires identical per-operation result digests.

use crate::job::{Job, RunResult, Violation};
use crate::rng::{Rng, fnv1a};
use harper_core::linting::{Lint, LintGroup, LintGroupConfig, Linter as _};
use harper_core::parsers::{Markdown, Parser, PlainEnglish};
use harper_core::{Dialect, Document, FstDictionary, MergedDictionary, MutableDictionary, WordMetadata};
use harper_wasm::{Language, Linter};
use serde_json::json;
use std::collections::{BTreeMap, HashMap};
use std::sync::Arc;
use std::sync::mpsc;

// ------------------------------------------------------------------ threads: a baton releases one at a time

type Task = Box<dyn FnOnce() + Send>;

struct Worker {
    tx: mpsc::Sender<Task>,
    handle: Option<std::thread::JoinHandle<()>>,
    ops: u64,
}

fn spawn_worker() -> Worker {
    let (tx, rx) = mpsc::channel::<Task>();
    let handle = std::thread::spawn(move || {
        while let Ok(t) = rx.recv() {
            t();
        }
    });
    Worker { tx, handle: Some(handle), ops: 0 }
}

/// Run `f` on worker `w` and wait for it: exactly one thread of the pool runs at any time.
fn on_worker<T: Send + 'static>(w: &mut Worker, f: impl FnOnce() -> T + Send + 'static) -> T {
    let (rtx, rrx) = mpsc::channel::<T>();
    w.ops += 1;
    w.tx.send(Box::new(move || {
        let _ = rtx.send(f());
    }))
    .expect("worker alive");
    rrx.recv().expect("worker result")
}

/// Run `f` on a thread that has never run anything else.
fn on_fresh_thread<T: Send + 'static>(f: impl FnOnce() -> T + Send + 'static) -> T {
    std::thread::spawn(f).join().expect("fresh thread")
}

// ------------------------------------------------------------------ documents

const CLAUSES: &[&str] = &[
    "This is an test of the system.",
    "I recieve the the package every day.",
    "She is taller then her brother.",
    "He came in 2st place today.",
    "There are  two spaces here.",
    "The wrold is big and teh sky is blue.",
    "We went to an university yesterday.",
    "It costs 100$ at the store.",
    "I could of done it better.",
    "Don't you think it isn't e.g. the 3nd one... or is it?",
    "This is an *test* of `teh` system.",
    "An [link](https://example.com/teh) and an _apple_ an **orange**.",
    "The weather is nice today.",
    "She said \"helo\" and 'an orange' to the nieghbor.",
    "A 10 year old and the colour of the centre.",
    "𝒜 mathematical letter and an error appear here.",
    "<b>an bold</b> claim with an html tag.",
    "# an heading that looks like markdown",
    // emphasis inside a phrase that a pattern rule matches: the clause's characters are the
    // same in both languages, its tokens are not
    "You could *of* known it was there.",
    "It is better _then_ nothing at all.",
    "He is more **then** ready for this.",
    "Back in the `day` we would of course go.",
    // misspellings whose nearest user-dictionary words (TIES) are equally far away
    "The wrod and the quikk reply were discusd openly.",
    // the same misspellings in other letter cases (sentence-initial, proper-noun-like, capitals):
    // what is suggested for one spelling must not leak into another
    "Jhon wrote to Pual about amercia last week.",
    "We saw jhon and pual in Amercia again.",
    "Teh package was recieved. Recieve it again, Nieghbor.",
    "TEH WROLD IS BIG and Helo is a word.",
];

/// User-dictionary words that tie, in edit distance, as corrections of misspellings in CLAUSES:
/// which of them is suggested, and in what order, must not depend on a hash map's order.
const TIES: &[&str] = &["wrods", "wrold", "wrode", "wrodd", "wroda", "quikks", "quikka", "quikkb", "quikkc", "discusda", "discusdb"];

fn gen_doc(rng: &mut Rng) -> String {
    let n = rng.range(1, 5);
    let mut s = String::new();
    for i in 0..n {
        if i > 0 {
            s.push_str(*rng.pick(&["\n\n", " ", "\n", "\n\n\n"]));
        }
        s.push_str(*rng.pick(CLAUSES));
    }
    if rng.chance(1, 6) {
        s.insert_str(0, *rng.pick(&["Dr. Who e.g. said... ", "𝒜𝒜 ", "1st 2nd 3rd ", "> "]));
    }
    if rng.chance(1, 4) {
        s = recase_a_word(rng, &s);
    }
    s
}

/// The same document with one of its words in another letter case (first letter toggled, or the
/// whole word in capitals or lower case): a long-lived linter meets words it has seen before in
/// a spelling that differs only in case.
fn recase_a_word(rng: &mut Rng, s: &str) -> String {
    let chars: Vec<char> = s.chars().collect();
    let starts: Vec<usize> = (0..chars.len())
        .filter(|&i| chars[i].is_ascii_alphabetic() && (i == 0 || !chars[i - 1].is_ascii_alphabetic()))
        .collect();
    if starts.is_empty() {
        return s.to_string();
    }
    let a = *rng.pick(&starts);
    let mut b = a;
    while b < chars.len() && chars[b].is_ascii_alphabetic() {
        b += 1;
    }
    let mut out = chars.clone();
    match rng.range(0, 3) {
        0 => out[a] = if chars[a].is_ascii_uppercase() { chars[a].to_ascii_lowercase() } else { chars[a].to_ascii_uppercase() },
        1 => (a..b).for_each(|i| out[i] = chars[i].to_ascii_uppercase()),
        _ => (a..b).for_each(|i| out[i] = chars[i].to_ascii_lowercase()),
    }
    out.into_iter().collect()
}

fn parser_for(markdown: bool) -> Box<dyn Parser> {
    if markdown { Box::new(Markdown::default()) } else { Box::new(PlainEnglish) }
}

fn merged_dict(words: &[String]) -> Arc<MergedDictionary> {
    let mut user = MutableDictionary::new();
    user.extend_words(words.iter().map(|w| (w.chars().collect::<Vec<char>>(), WordMetadata::default())));
    let mut m = MergedDictionary::new();
    m.add_dictionary(FstDictionary::curated());
    m.add_dictionary(Arc::new(user));
    Arc::new(m)
}

// ------------------------------------------------------------------ the long-lived linters

enum Inner {
    /// as harper-cli uses it: the group's own configuration, linted directly
    Bare(LintGroup),
    /// as harper-ls's DocumentState uses it: user configuration, filled with the curated
    /// defaults around every call
    DocState(LintGroup),
    /// the JS-facing object
    Wasm(Linter),
}

struct Slot {
    inner: Option<Inner>,
    dialect: Dialect,
    wdialect: harper_wasm::Dialect,
    words: Vec<String>,
    /// for Wasm: the accumulated explicit configuration
    wasm_cfg: BTreeMap<String, bool>,
    lints_done: u64,
    last_markdown: Option<bool>,
    last_cfg_hash: u64,
    seen_docs: HashMap<u64, (bool, u64)>,
}

fn kind_name(i: &Inner) -> &'static str {
    match i {
        Inner::Bare(_) => "bare",
        Inner::DocState(_) => "docstate",
        Inner::Wasm(_) => "wasm",
    }
}

fn lint_with(inner: &mut Inner, text: &str, markdown: bool, dict: &Arc<MergedDictionary>) -> Vec<Lint> {
    match inner {
        Inner::Bare(g) => {
            let doc = Document::new(text, &parser_for(markdown), dict);
            g.lint(&doc)
        }
        Inner::DocState(g) => {
            let doc = Document::new(text, &parser_for(markdown), dict);
            let temp = g.config.clone();
            g.config.fill_with_curated();
            let lints = g.lint(&doc);
            g.config = temp;
            lints
        }
        Inner::Wasm(l) => {
            let out = l.lint(text.to_string(), if markdown { Language::Markdown } else { Language::Plain });
            out.iter()
                .map(|w| {
                    let v: serde_json::Value = serde_json::from_str(&w.to_json()).unwrap();
                    serde_json::from_value::<Lint>(v["inner"].clone()).unwrap()
                })
                .collect()
        }
    }
}

fn cfg_of(inner: &Inner) -> LintGroupConfig {
    match inner {
        Inner::Bare(g) | Inner::DocState(g) => g.config.clone(),
        Inner::Wasm(_) => LintGroupConfig::default(),
    }
}

/// A fresh linter of the same kind, dictionary, dialect and configuration.
fn fresh_like(slot: &Slot, cfg: LintGroupConfig, kind: &'static str) -> Inner {
    let dict = merged_dict(&slot.words);
    match kind {
        "bare" => {
            let mut g = LintGroup::new_curated(dict, slot.dialect);
            g.config = cfg;
            Inner::Bare(g)
        }
        "docstate" => Inner::DocState(LintGroup::new_curated(dict, slot.dialect).with_lint_config(cfg)),
        _ => {
            let mut l = Linter::new(slot.wdialect);
            if !slot.words.is_empty() {
                l.import_words(slot.words.clone());
            }
            if !slot.wasm_cfg.is_empty() {
                let _ = l.set_lint_config_from_json(serde_json::to_string(&slot.wasm_cfg).unwrap());
            }
            Inner::Wasm(l)
        }
    }
}

fn digest(lints: &[Lint]) -> u64 {
    fnv1a(serde_json::to_string(lints).unwrap().as_bytes())
}

const RULES: &[&str] = &["SpellCheck", "AnA", "RepeatedWords", "SentenceCapitalization", "Spaces", "CorrectNumberSuffix", "ThenThan", "SpelledNumbers", "LongSentences", "BoringWords", "ModalOf", "CurrencyPlacement"];

pub fn run(job: &Job) -> RunResult {
    let mut res = RunResult::new(job);
    let universe = job.params.get("universe").and_then(|v| v.as_u64()).unwrap_or(0);
    // hash universe: burn per-thread hasher seeds and reseed the process's randomness, so that
    // every hash map and hasher built from here on differs between universes
    for _ in 0..(universe * 7 + 1) {
        let _ = std::hint::black_box(foldhash::fast::RandomState::default());
        let _ = std::hint::black_box(foldhash::quality::RandomState::default());
    }
    crate::seam::seed_random(crate::rng::mix64(job.seed ^ universe.wrapping_mul(0x9E37_79B9_7F4A_7C15)));
    crate::seam::set_time_nanos((universe as i64) * 1_234_567_891);

    let mode = job.params.get("mode").and_then(|v| v.as_str()).unwrap_or("history").to_string();
    let mut rng = Rng::derive(job.seed, "workload");
    let mut sched = Rng::derive(job.seed, "scheduler");
    let dialects = [(Dialect::American, harper_wasm::Dialect::American), (Dialect::British, harper_wasm::Dialect::British), (Dialect::Canadian, harper_wasm::Dialect::Canadian), (Dialect::Australian, harper_wasm::Dialect::Australian)];

    let mut workers: Vec<Worker> = (0..rng.range(1, 3)).map(|_| spawn_worker()).collect();
    let nslots = rng.range(1, 3);
    let mut slots: Vec<Slot> = vec![];
    for _ in 0..nslots {
        let (d, wd) = *rng.pick(&dialects);
        let mut words: Vec<String> = if rng.chance(1, 3) { vec![rng.pick(crate::corpus::WORDS).to_string()] } else { vec![] };
        if rng.chance(1, 3) {
            for _ in 0..rng.range(2, 6) {
                let w = rng.pick(TIES).to_string();
                if !words.contains(&w) {
                    words.push(w);
                }
            }
        }
        let mut slot = Slot { inner: None, dialect: d, wdialect: wd, words, wasm_cfg: BTreeMap::new(), lints_done: 0, last_markdown: None, last_cfg_hash: 0, seen_docs: HashMap::new() };
        let kind = *rng.pick(&["bare", "docstate", "wasm", "wasm"]);
        let cfg = if kind == "docstate" { LintGroupConfig::default() } else { LintGroup::new_curated(merged_dict(&[]), d).config };
        slot.inner = Some(fresh_like(&slot, cfg, kind));
        slots.push(slot);
    }
    let docs: Vec<String> = (0..rng.range(2, 5)).map(|_| gen_doc(&mut rng)).collect();
    let nops = if mode == "eviction" { 6 } else { rng.range(8, 40) };
    let mut memo: HashMap<u64, Vec<Lint>> = HashMap::new();
    let mut script: Vec<String> = vec![];
    let mut op_digests: Vec<u64> = vec![];
    let mut sig: u64 = 0xcbf29ce484222325;

    if mode == "eviction" {
        // fill one linter's clause cache beyond its capacity, so that the eviction path runs
        let s = 0;
        let mut inner = slots[s].inner.take().unwrap();
        let dict = merged_dict(&slots[s].words);
        let n = job.params.get("clauses").and_then(|v| v.as_u64()).unwrap_or(10_500);
        let distinct_words = job.params.get("distinct_words").and_then(|v| v.as_bool()).unwrap_or(false);
        if distinct_words {
            res.count("word_cache_evicted", 1);
        }
        let mut k = 0u64;
        while k < n {
            let mut text = String::new();
            for _ in 0..250 {
                if distinct_words {
                    // a misspelling of its own per clause: SpellCheck's word cache overflows as well
                    let mut w = String::from("zq");
                    let mut v = k;
                    loop {
                        w.push((b'a' + (v % 26) as u8) as char);
                        v /= 26;
                        if v == 0 {
                            break;
                        }
                    }
                    text.push_str(&format!("Item {k} is an test of teh {w}x cache.\n\n"));
                } else {
                    text.push_str(&format!("Item {k} is an test of teh cache.\n\n"));
                }
                k += 1;
            }
            let _ = lint_with(&mut inner, &text, false, &dict);
        }
        slots[s].inner = Some(inner);
        res.count("lru_evicted", 1);
        res.count("eviction_clauses", n);
        script.push(format!("evict: {n} distinct clauses through slot 0"));
    }

    for step in 0..nops {
        let si = rng.below(slots.len());
        let op = rng.below(10);
        sig = sig.wrapping_mul(0x100000001B3) ^ (op as u64 * 16 + si as u64);
        match op {
            0..=5 => {
                // Lint(slot, doc, language) on a scheduler-chosen thread
                let di = rng.below(docs.len());
                let text = if rng.chance(1, 4) {
                    // the same clauses at another offset / in another order
                    let mut t = gen_doc(&mut rng);
                    t.push_str("\n\n");
                    t.push_str(&docs[di]);
                    t
                } else {
                    docs[di].clone()
                };
                let markdown = rng.chance(1, 2);
                let wi = sched.below(workers.len());
                let mut inner = slots[si].inner.take().unwrap();
                let kind = kind_name(&inner);
                let cfg = cfg_of(&inner);
                let dict = merged_dict(&slots[si].words);
                let t2 = text.clone();
                let d2 = dict.clone();
                let outcome = on_worker(&mut workers[wi], move || {
                    std::panic::catch_unwind(std::panic::AssertUnwindSafe(move || {
                        let r = lint_with(&mut inner, &t2, markdown, &d2);
                        (inner, r)
                    }))
                    .map_err(|p| p.downcast_ref::<String>().cloned().or_else(|| p.downcast_ref::<&str>().map(|s| s.to_string())).unwrap_or_default())
                });
                let (inner_back, got) = match outcome {
                    Ok(v) => v,
                    Err(msg) => {
                        // the long-lived linter panicked: a violation unless a fresh one does the same
                        let mut fresh = fresh_like(&slots[si], cfg.clone(), kind);
                        let t3 = text.clone();
                        let d3 = dict.clone();
                        let fresh_ok = std::thread::spawn(move || lint_with(&mut fresh, &t3, markdown, &d3)).join().is_ok();
                        script.push(format!("lint slot{si}({kind}) doc{di} {} on thread {wi}: panic", if markdown { "md" } else { "plain" }));
                        if fresh_ok {
                            res.violate(Violation {
                                property: "C05".into(),
                                oracle: "C05.equals_fresh_linter".into(),
                                class: "history_dependent_panic".into(),
                                detail: format!(
                                    "step {step}: a long-lived {kind} linter (after {} earlier lints) panics ({msg}) where a fresh one returns a result for the same text, language, dictionary and configuration; text {:?}",
                                    slots[si].lints_done,
                                    text.chars().take(200).collect::<String>()
                                ),
                                facts: json!({"kind": kind, "markdown": markdown}),
                            });
                        } else {
                            res.verdict = crate::job::Verdict::Harness(format!("both the long-lived and a fresh linter panic: {msg}"));
                        }
                        break;
                    }
                };
                slots[si].inner = Some(inner_back);
                slots[si].lints_done += 1;
                res.count("evaluations", 1);
                // reach probes
                let dkey = fnv1a(text.as_bytes());
                let ckey = fnv1a(format!("{:?}{:?}", cfg, slots[si].wasm_cfg).as_bytes());
                if let Some((md, ck)) = slots[si].seen_docs.get(&dkey) {
                    if *md != markdown {
                        res.count("cache_hit_other_language", 1);
                    }
                    if *ck != ckey {
                        res.count("cache_hit_after_config_toggle", 1);
                    } else {
                        res.count("cache_hit_same_context", 1);
                    }
                }
                if text != docs[di] {
                    res.count("cache_hit_at_other_offset", 1);
                }
                slots[si].seen_docs.insert(dkey, (markdown, ckey));
                if workers[wi].ops > 1 && slots[si].lints_done > 1 {
                    res.count("thread_migrated", 1);
                }
                // reference: a fresh linter, on a fresh thread; memoised under the complete input tuple
                let mkey = fnv1a(serde_json::to_string(&json!([kind, format!("{:?}", slots[si].dialect), slots[si].words, format!("{:?}", cfg), slots[si].wasm_cfg, text, markdown])).unwrap().as_bytes());
                let want = match memo.get(&mkey) {
                    Some(w) => w.clone(),
                    None => {
                        let mut fresh = fresh_like(&slots[si], cfg.clone(), kind);
                        let t3 = text.clone();
                        let d3 = dict.clone();
                        let w = on_fresh_thread(move || lint_with(&mut fresh, &t3, markdown, &d3));
                        memo.insert(mkey, w.clone());
                        w
                    }
                };
                op_digests.push(digest(&got));
                script.push(format!("lint slot{si}({kind}) doc{di}{} {} on thread {wi}", if text != docs[di] { "+prefix" } else { "" }, if markdown { "md" } else { "plain" }));
                if got != want {
                    let same_set = {
                        let mut a: Vec<String> = got.iter().map(|l| serde_json::to_string(l).unwrap()).collect();
                        let mut b: Vec<String> = want.iter().map(|l| serde_json::to_string(l).unwrap()).collect();
                        a.sort();
                        b.sort();
                        a == b
                    };
                    let missing: Vec<&Lint> = want.iter().filter(|l| !got.contains(l)).collect();
                    let extra: Vec<&Lint> = got.iter().filter(|l| !want.contains(l)).collect();
                    let other_lang_before = slots[si].last_markdown.map(|m| m != markdown).unwrap_or(false);
                    res.violate(Violation {
                        property: "C05".into(),
                        oracle: "C05.equals_fresh_linter".into(),
                        class: if same_set { "order_differs".into() } else { "history_dependent_result".into() },
                        detail: format!(
                            "step {step}: a long-lived {kind} linter (after {} earlier lints) returns a different result than a fresh one for the same text, language ({}), dictionary and configuration; missing {:?}; extra {:?}; text {:?}",
                            slots[si].lints_done - 1,
                            if markdown { "Markdown" } else { "plain" },
                            missing.iter().take(2).map(|l| format!("{:?} {}", l.span, l.message)).collect::<Vec<_>>(),
                            extra.iter().take(2).map(|l| format!("{:?} {}", l.span, l.message)).collect::<Vec<_>>(),
                            text.chars().take(200).collect::<String>()
                        ),
                        facts: json!({"kind": kind, "other_language_before": other_lang_before, "markdown": markdown}),
                    });
                    break;
                }
                slots[si].last_markdown = Some(markdown);
                slots[si].last_cfg_hash = ckey;
            }
            6 | 7 => {
                // SetRule(slot, rule, on | off | unset)
                let rule = *rng.pick(RULES);
                let v = *rng.pick(&[Some(true), Some(false), None]);
                let slot = &mut slots[si];
                match slot.inner.as_mut().unwrap() {
                    Inner::Bare(g) | Inner::DocState(g) => match v {
                        Some(b) => g.config.set_rule_enabled(rule, b),
                        None => g.config.unset_rule_enabled(rule),
                    },
                    Inner::Wasm(l) => {
                        if let Some(b) = v {
                            let _ = l.set_lint_config_from_json(json!({rule: b}).to_string());
                            slot.wasm_cfg.insert(rule.to_string(), b);
                        }
                    }
                }
                res.count("config_toggles", 1);
                script.push(format!("set slot{si} {rule} = {v:?}"));
            }
            8 => {
                // ImportWords (JS-facing linter): rebuilds its rule set
                let slot = &mut slots[si];
                if let Inner::Wasm(l) = slot.inner.as_mut().unwrap() {
                    let w = if rng.chance(1, 3) { rng.pick(TIES).to_string() } else { rng.pick(crate::corpus::WORDS).to_string() };
                    let norm = |x: &str| x.to_lowercase().replace(['’', '‘'], "'");
                    if !slot.words.iter().any(|x| *x != w && norm(x) == norm(&w)) {
                        l.import_words(vec![w.clone()]);
                        if !slot.words.contains(&w) {
                            slot.words.push(w.clone());
                        }
                        res.count("linter_rebuilt_for_dict", 1);
                        script.push(format!("import_words slot{si} {w:?}"));
                    }
                }
            }
            _ => {
                // SpawnThread / RetireThread
                if workers.len() < 4 && rng.chance(1, 2) {
                    workers.push(spawn_worker());
                    res.count("threads_spawned", 1);
                    script.push("spawn thread".into());
                } else if workers.len() > 1 {
                    let i = rng.below(workers.len());
                    let mut w = workers.remove(i);
                    drop(std::mem::replace(&mut w.tx, mpsc::channel().0));
                    if let Some(h) = w.handle.take() {
                        let _ = h.join();
                    }
                    res.count("threads_retired", 1);
                    script.push(format!("retire thread {i}"));
                }
            }
        }
    }
    for mut w in workers {
        drop(std::mem::replace(&mut w.tx, mpsc::channel().0));
        if let Some(h) = w.handle.take() {
            let _ = h.join();
        }
    }
    res.states = op_digests;
    if job.prop == "C10" {
        res.violations.clear();
        if matches!(res.verdict, crate::job::Verdict::Violation(_)) {
            res.verdict = crate::job::Verdict::Ok;
        }
    }
    crate::seam::library_closed_world_check(job, &mut res);
    res.signature = sig ^ fnv1a(docs.join("|").as_bytes());
    res.steps = nops as u64;
    res.nontrivial = res.counters.get("evaluations").copied().unwrap_or(0) >= 2;
    res.log_hash = res.signature ^ fnv1a(format!("{:?}{:?}", res.states, res.violations.len()).as_bytes());
    res.sample = Some(json!({"engine":"cache-sim","universe":universe,"docs":docs,"script":script}));
    if job.want_trace || !res.violations.is_empty() {
        res.trace = res.sample.clone().map(|mut s| {
            s["seed"] = json!(job.seed);
            s
        });
    }
    res
}
