//! Simulated stdin/stdout of the language server: in-memory byte pipes whose
//! delivery the simulator controls.

use std::collections::VecDeque;
use std::io;
use std::pin::Pin;
use std::sync::{Arc, Mutex};
use std::task::{Context, Poll, Waker};
use tokio::io::{AsyncRead, AsyncWrite, ReadBuf};

#[derive(Default)]
struct Inner {
    buf: VecDeque<u8>,
    closed: bool,
    /// Capacity for the writer side (stdout back-pressure); 0 = unbounded.
    cap: usize,
    reader: Option<Waker>,
    writer: Option<Waker>,
    pub total: u64,
}

#[derive(Clone, Default)]
pub struct Pipe(Arc<Mutex<Inner>>);

impl Pipe {
    pub fn new(cap: usize) -> Self {
        let p = Pipe::default();
        p.0.lock().unwrap().cap = cap;
        p
    }
    /// Simulator side: make bytes available to the reader.
    pub fn push(&self, bytes: &[u8]) {
        let w = {
            let mut i = self.0.lock().unwrap();
            i.buf.extend(bytes.iter().copied());
            i.total += bytes.len() as u64;
            i.reader.take()
        };
        if let Some(w) = w {
            w.wake();
        }
    }
    /// Simulator side: take up to `max` bytes out (drain of the server's stdout).
    pub fn pull(&self, max: usize) -> Vec<u8> {
        let (out, w) = {
            let mut i = self.0.lock().unwrap();
            let n = max.min(i.buf.len());
            let out: Vec<u8> = i.buf.drain(..n).collect();
            (out, i.writer.take())
        };
        if let Some(w) = w {
            w.wake();
        }
        out
    }
    pub fn len(&self) -> usize {
        self.0.lock().unwrap().buf.len()
    }
    pub fn writer_blocked(&self) -> bool {
        self.0.lock().unwrap().writer.is_some()
    }
    pub fn close(&self) {
        let (r, w) = {
            let mut i = self.0.lock().unwrap();
            i.closed = true;
            (i.reader.take(), i.writer.take())
        };
        if let Some(w) = r {
            w.wake();
        }
        if let Some(w) = w {
            w.wake();
        }
    }
}

impl AsyncRead for Pipe {
    fn poll_read(self: Pin<&mut Self>, cx: &mut Context<'_>, buf: &mut ReadBuf<'_>) -> Poll<io::Result<()>> {
        let mut i = self.0.lock().unwrap();
        if i.buf.is_empty() {
            if i.closed {
                return Poll::Ready(Ok(())); // EOF
            }
            i.reader = Some(cx.waker().clone());
            return Poll::Pending;
        }
        let n = buf.remaining().min(i.buf.len());
        let (a, b) = i.buf.as_slices();
        if n <= a.len() {
            buf.put_slice(&a[..n]);
        } else {
            buf.put_slice(a);
            buf.put_slice(&b[..n - a.len()]);
        }
        i.buf.drain(..n);
        Poll::Ready(Ok(()))
    }
}

impl AsyncWrite for Pipe {
    fn poll_write(self: Pin<&mut Self>, cx: &mut Context<'_>, data: &[u8]) -> Poll<io::Result<usize>> {
        let mut i = self.0.lock().unwrap();
        if i.closed {
            return Poll::Ready(Err(io::Error::new(io::ErrorKind::BrokenPipe, "closed")));
        }
        let room = if i.cap == 0 { usize::MAX } else { i.cap.saturating_sub(i.buf.len()) };
        if room == 0 {
            i.writer = Some(cx.waker().clone());
            return Poll::Pending;
        }
        let n = room.min(data.len());
        i.buf.extend(data[..n].iter().copied());
        i.total += n as u64;
        Poll::Ready(Ok(n))
    }
    fn poll_flush(self: Pin<&mut Self>, _cx: &mut Context<'_>) -> Poll<io::Result<()>> {
        Poll::Ready(Ok(()))
    }
    fn poll_shutdown(self: Pin<&mut Self>, _cx: &mut Context<'_>) -> Poll<io::Result<()>> {
        Poll::Ready(Ok(()))
    }
}
