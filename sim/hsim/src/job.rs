//! Jobs (one simulated run each) and their results: the protocol between the
//! orchestrator and the forked simulation children.

use serde::{Deserialize, Serialize};
use serde_json::Value;
use std::collections::BTreeMap;

#[derive(Clone, Debug, Serialize, Deserialize)]
pub struct Job {
    pub engine: String,
    pub prop: String,
    pub tier: String,
    pub idx: u64,
    pub seed: u64,
    /// Engine-specific parameters (mode, bounds).
    #[serde(default)]
    pub params: Value,
    /// Replay by trace: path of a replay file whose `trace` drives the run.
    #[serde(default)]
    pub replay_file: Option<String>,
    /// Return the full trace even if nothing was violated.
    #[serde(default)]
    pub want_trace: bool,
    /// Directory under which the child creates its private world.
    pub scratch: String,
}

#[derive(Clone, Debug, Serialize, Deserialize, PartialEq)]
pub struct Violation {
    pub property: String,
    /// Which oracle rule failed, e.g. `C09.last_word`.
    pub oracle: String,
    /// Short class used for minimisation ("same violation") and known-finding matching.
    pub class: String,
    pub detail: String,
    /// Structured facts about the violation for known-finding predicates.
    #[serde(default)]
    pub facts: Value,
}

#[derive(Clone, Debug, Serialize, Deserialize)]
pub enum Verdict {
    Ok,
    Violation(Violation),
    /// Trouble in the harness itself: never reported as a violation.
    Harness(String),
}

#[derive(Clone, Debug, Serialize, Deserialize)]
pub struct RunResult {
    pub idx: u64,
    pub seed: u64,
    pub verdict: Verdict,
    /// All violations seen in the run (the verdict carries the first).
    #[serde(default)]
    pub violations: Vec<Violation>,
    #[serde(default)]
    pub counters: BTreeMap<String, u64>,
    /// Hash of the schedule/fault/operation signature of the run.
    pub signature: u64,
    /// Non-trivial by the engine's stated rule.
    pub nontrivial: bool,
    /// Hashes of abstract states visited.
    #[serde(default)]
    pub states: Vec<u64>,
    pub sim_nanos: i64,
    pub steps: u64,
    /// Hash over the complete event log (determinism proof).
    pub log_hash: u64,
    /// Complete record of the run (script, decisions, faults): the replay file body.
    #[serde(default)]
    pub trace: Option<Value>,
    /// A compact, human-readable view for evidence samples.
    #[serde(default)]
    pub sample: Option<Value>,
}

impl RunResult {
    pub fn new(job: &Job) -> Self {
        RunResult {
            idx: job.idx,
            seed: job.seed,
            verdict: Verdict::Ok,
            violations: vec![],
            counters: BTreeMap::new(),
            signature: 0,
            nontrivial: false,
            states: vec![],
            sim_nanos: 0,
            steps: 0,
            log_hash: 0,
            trace: None,
            sample: None,
        }
    }
    pub fn count(&mut self, k: &str, n: u64) {
        if n > 0 {
            *self.counters.entry(k.to_string()).or_insert(0) += n;
        }
    }
    pub fn violate(&mut self, v: Violation) {
        if matches!(self.verdict, Verdict::Ok) {
            self.verdict = Verdict::Violation(v.clone());
        }
        self.violations.push(v);
    }
    pub fn harness(&mut self, msg: impl Into<String>) {
        self.verdict = Verdict::Harness(msg.into());
    }
}
