//! `api-sim` (C14, C16): histories of calls on long-lived API objects —
//! `harper_wasm::Linter` (the object exposed to JavaScript, compiled natively) and
//! the core `IgnoredLints` + `LintGroup` pair as harper-ls drives it — checked
//! call by call against a reference model.
//!
//! There is no fault or schedule dimension here (single owner, no I/O): what is
//! simulated is *histories* against a model, and the evidence says exactly that.

use crate::corpus;
use crate::job::{Job, RunResult, Violation};
use crate::rng::{Rng, fnv1a};
use harper_core::linting::{Lint, LintGroup, Linter as _, Suggestion};
use harper_core::parsers::{Markdown, Parser, PlainEnglish};
use harper_core::{Dialect, Document, FstDictionary, IgnoredLints, MergedDictionary, MutableDictionary, WordMetadata};
use harper_wasm::{Language, Linter};
use serde_json::{Value, json};
use std::collections::BTreeMap;
use std::sync::Arc;

// ------------------------------------------------------------------ the reference model of "which lint is it"

/// What the user means by "that lint": kind, message, suggestions, priority, the flagged
/// text, and the texts of the tokens within two characters before and after it.
#[derive(Clone, Debug, PartialEq, Eq, PartialOrd, Ord)]
pub struct Identity {
    pub kind: String,
    pub message: String,
    pub suggestions: String,
    pub priority: u8,
    pub flagged: String,
    pub before: Vec<String>,
    pub after: Vec<String>,
}

fn fat_view(l: &Lint, doc: &Document) -> String {
    use harper_core::Span;
    let n = doc.get_source().len();
    let (s, e) = (l.span.start.min(n), l.span.end.min(n));
    format!(
        "{:?} | {:?} | {:?}",
        doc.fat_tokens_intersecting(Span::new(s.saturating_sub(2), s)),
        doc.fat_tokens_intersecting(Span::new(s, e)),
        doc.fat_tokens_intersecting(Span::new(e, (e + 2).min(n)))
    )
}

/// A token as the identity of a lint sees it: its characters.  (The flagged text is put together
/// from its tokens rather than cut out of the source: characters that belong to no token - the
/// blanks around a Markdown soft break - are not part of what Harper sees, and the property
/// speaks of surrounding *words*.)
fn tok_repr(t: &harper_core::Token, src: &[char]) -> String {
    src[t.span.start..t.span.end.min(src.len())].iter().collect()
}

pub fn identity(l: &Lint, doc: &Document) -> Identity {
    let src = doc.get_source();
    let toks = |a: usize, b: usize| -> Vec<String> {
        if a >= b {
            return vec![];
        }
        doc.get_tokens()
            .iter()
            .filter(|t| t.span.start < b && a < t.span.end && t.span.start < t.span.end)
            .map(|t| tok_repr(t, src))
            .collect()
    };
    let (s, e) = (l.span.start, l.span.end.min(src.len()));
    Identity {
        kind: format!("{:?}", l.lint_kind),
        message: l.message.clone(),
        suggestions: format!("{:?}", l.suggestions),
        priority: l.priority,
        flagged: {
            // token by token where the span is made of whole tokens, the raw characters otherwise
            let inside: Vec<&harper_core::Token> = doc.get_tokens().iter().filter(|t| t.span.start < e && s < t.span.end && t.span.start < t.span.end).collect();
            let whole = !inside.is_empty() && inside.first().map(|t| t.span.start == s).unwrap_or(false) && inside.last().map(|t| t.span.end == e).unwrap_or(false);
            if whole { inside.iter().map(|t| tok_repr(t, src)).collect::<Vec<_>>().concat() } else { src[s.min(e)..e].iter().collect() }
        },
        before: toks(s.saturating_sub(2), s),
        after: toks(e, (e + 2).min(src.len())),
    }
}

#[derive(Clone, Debug)]
struct Tracked {
    /// harper's own view of the neighbourhood when the lint was ignored (for diagnosis)
    fat: String,
    id: Identity,
    /// where that lint is now (None once an edit touched its neighbourhood)
    span: Option<(usize, usize)>,
    markdown: bool,
}

/// One edit: replace `del` characters at `pos` by `ins`.
#[derive(Clone, Debug)]
struct Edit {
    pos: usize,
    del: usize,
    ins: Vec<char>,
}

fn apply_edit(text: &mut Vec<char>, e: &Edit, tracked: &mut [Tracked]) {
    let end = (e.pos + e.del).min(text.len());
    text.splice(e.pos..end, e.ins.iter().copied());
    let delta = e.ins.len() as isize - (end - e.pos) as isize;
    for t in tracked.iter_mut() {
        if let Some((s, en)) = t.span {
            // the neighbourhood: two characters either side
            let (ns, ne) = (s.saturating_sub(2), en + 2);
            if end <= ns {
                // entirely before the neighbourhood: the lint moves with the text
                t.span = Some(((s as isize + delta) as usize, (en as isize + delta) as usize));
            } else if e.pos >= ne {
                // entirely after it
            } else {
                // touched: no requirement any more
                t.span = None;
            }
        }
    }
}

/// An edit placed just outside the neighbourhood of a tracked ignored lint: a word inserted,
/// replaced or removed one token beyond the tokens within two characters of the lint.  The
/// property says the lint stays hidden; anything position- or context-dependent in what the
/// ignore list remembers shows here first.
fn gen_edit_near(text: &[char], tracked: &[Tracked], rng: &mut Rng) -> Option<Edit> {
    let live: Vec<(usize, usize)> = tracked.iter().filter_map(|t| t.span).filter(|(s, e)| s <= e && *e <= text.len()).collect();
    if live.is_empty() {
        return None;
    }
    let (s, e) = *rng.pick(&live);
    let wordish = |c: char| c.is_alphanumeric() || c == '\'' || c == '’';
    let words = ["the", "a", "my", "this", "bulb", "dog", "house", "Paris", "green", "quickly", "runs", "of", "very"];
    if rng.chance(1, 2) {
        // to the right: past the window, past the token the window ends in, past one gap
        let mut p = (e + 2).min(text.len());
        while p < text.len() && wordish(text[p]) {
            p += 1;
        }
        if p >= text.len() || text[p] != ' ' {
            // end of text or punctuation: append a word after a space if the text ends here
            if p == text.len() && p >= e + 2 {
                return Some(Edit { pos: p, del: 0, ins: format!(" {}", rng.pick(&words)).chars().collect() });
            }
            return None;
        }
        let q = p + 1; // start of the next token
        let mut r = q;
        while r < text.len() && wordish(text[r]) {
            r += 1;
        }
        Some(match rng.below(3) {
            0 => Edit { pos: q, del: 0, ins: format!("{} ", rng.pick(&words)).chars().collect() },
            1 if r > q => Edit { pos: q, del: r - q, ins: rng.pick(&words).chars().collect() },
            _ if r > q && r < text.len() && text[r] == ' ' => Edit { pos: q, del: r - q + 1, ins: vec![] },
            _ => Edit { pos: q, del: 0, ins: format!("{} ", rng.pick(&words)).chars().collect() },
        })
    } else {
        // to the left
        let mut p = s.saturating_sub(2);
        while p > 0 && wordish(text[p - 1]) {
            p -= 1;
        }
        if p == 0 {
            return if s >= 2 { Some(Edit { pos: 0, del: 0, ins: format!("{} ", rng.pick(&words)).chars().collect() }) } else { None };
        }
        if text[p - 1] != ' ' {
            return None;
        }
        let q = p - 1; // the gap before the neighbouring token
        let mut r = q;
        while r > 0 && wordish(text[r - 1]) {
            r -= 1;
        }
        Some(match rng.below(3) {
            0 => Edit { pos: q, del: 0, ins: format!(" {}", rng.pick(&words)).chars().collect() },
            1 if r < q => Edit { pos: r, del: q - r, ins: rng.pick(&words).chars().collect() },
            _ if r < q && r > 0 && text[r - 1] == ' ' => Edit { pos: r - 1, del: q - r + 1, ins: vec![] },
            _ => Edit { pos: q, del: 0, ins: format!(" {}", rng.pick(&words)).chars().collect() },
        })
    }
}

fn gen_edit(text: &[char], rng: &mut Rng) -> Edit {
    let s: String = text.iter().collect();
    match rng.below(8) {
        0 => Edit { pos: 0, del: 0, ins: format!("{}\n\n", corpus::paragraph(rng)).chars().collect() },
        1 => Edit { pos: text.len(), del: 0, ins: format!("\n\n{}", corpus::paragraph(rng)).chars().collect() },
        2 => {
            // insert a sentence at a paragraph boundary
            let bounds: Vec<usize> = s.match_indices("\n\n").map(|(i, _)| s[..i].chars().count()).collect();
            match bounds.is_empty() {
                true => Edit { pos: text.len(), del: 0, ins: format!(" {}", corpus::sentence(rng)).chars().collect() },
                false => Edit { pos: *rng.pick(&bounds), del: 0, ins: format!(" {}", corpus::sentence(rng)).chars().collect() },
            }
        }
        3 if !text.is_empty() => Edit { pos: rng.below(text.len()), del: 1, ins: vec![] },
        4 => Edit { pos: rng.below(text.len() + 1), del: 0, ins: rng.pick(&[" teh ", "x", " ", "\"", "𝒜", ". ", " an "]).chars().collect() },
        5 if !text.is_empty() => {
            // replace a word
            let i = rng.below(text.len());
            let mut a = i;
            while a > 0 && text[a - 1].is_alphabetic() {
                a -= 1;
            }
            let mut b = i;
            while b < text.len() && text[b].is_alphabetic() {
                b += 1;
            }
            Edit { pos: a, del: b - a, ins: rng.pick(&["word", "teh", "an", "the", "Wrold", ""]).chars().collect() }
        }
        6 => Edit { pos: 0, del: 0, ins: rng.pick(&["\"Quoted\" start. ", "He said \"hi\". ", "x ", "\n"]).chars().collect() },
        _ => {
            // duplicate the whole text as a further paragraph (same clauses at another offset)
            let mut ins: Vec<char> = "\n\n".chars().collect();
            ins.extend(text.iter().take(300));
            Edit { pos: text.len(), del: 0, ins }
        }
    }
}

fn parser_for(markdown: bool) -> Box<dyn Parser> {
    if markdown { Box::new(Markdown::default()) } else { Box::new(PlainEnglish) }
}

fn merged_dict(words: &[String]) -> Arc<MergedDictionary> {
    let mut user = MutableDictionary::new();
    user.extend_words(words.iter().map(|w| (w.chars().collect::<Vec<char>>(), WordMetadata::default())));
    let mut m = MergedDictionary::new();
    m.add_dictionary(FstDictionary::curated());
    m.add_dictionary(Arc::new(user));
    Arc::new(m)
}

/// Do the words contain two that differ only in letter case or apostrophe style?
fn has_variant_pair(words: &[String]) -> bool {
    let norm = |w: &str| w.to_lowercase().replace(['’', '‘'], "'");
    words.iter().any(|a| words.iter().any(|b| a != b && norm(a) == norm(b)))
}

fn viol(res: &mut RunResult, prop: &str, oracle: &str, class: &str, detail: String, facts: Value) {
    res.violate(Violation { property: prop.into(), oracle: format!("{prop}.{oracle}"), class: class.into(), detail, facts });
}

/// The C14 oracle: `actual` against the reference lints and the tracked ignored lints.
fn check_ignore_semantics(
    res: &mut RunResult,
    what: &str,
    text: &[char],
    markdown: bool,
    doc: &Document,
    reference: &[Lint],
    actual: &[Lint],
    tracked: &[Tracked],
) {
    let ids: Vec<Identity> = tracked.iter().map(|t| t.id.clone()).collect();
    // (a) a tracked ignored lint whose neighbourhood is untouched must stay hidden
    for t in tracked.iter().filter(|t| t.markdown == markdown) {
        let Some((s, e)) = t.span else { continue };
        if let Some(l) = actual.iter().find(|l| l.span.start == s && l.span.end == e && identity(l, doc) == t.id) {
            res.count("c14_checked_hidden", 1);
            let in_ref = reference.iter().any(|r| r.span == l.span && r.message == l.message);
            if DEBUG.load(std::sync::atomic::Ordering::Relaxed) {
                eprintln!("C14 debug: at ignore time: {}\nC14 debug: now:            {}", t.fat, fat_view(l, doc));
            }
            viol(
                res,
                "C14",
                "ignored_stays_hidden",
                "ignored_lint_reported",
                format!(
                    "{what}: the lint '{}' on '{}' at {}..{} was ignored and neither it nor the tokens within two characters of it were touched, yet it is reported again (text: {:?})",
                    l.message,
                    t.id.flagged,
                    s,
                    e,
                    text.iter().take(160).collect::<String>()
                ),
                json!({"in_ref": in_ref, "has_quote_nearby": text.contains(&'"') || text.contains(&'“'), "start": s}),
            );
            return;
        }
        res.count("c14_checked_hidden", 1);
    }
    // (b) every reference lint whose identity differs from every ignored one must be reported
    for r in reference {
        let id = identity(r, doc);
        if ids.contains(&id) {
            continue;
        }
        res.count("c14_checked_reported", 1);
        if !actual.iter().any(|a| a == r) {
            if DEBUG.load(std::sync::atomic::Ordering::Relaxed) {
                eprintln!("C14 debug: reference = {:?}", reference.iter().map(|l| format!("{:?} {}", l.span, l.message)).collect::<Vec<_>>());
                eprintln!("C14 debug: actual    = {:?}", actual.iter().map(|l| format!("{:?} {}", l.span, l.message)).collect::<Vec<_>>());
                eprintln!("C14 debug: tracked   = {:?}", tracked.iter().map(|t| format!("{:?} {} {:?}", t.span, t.id.message, t.id.flagged)).collect::<Vec<_>>());
            }
            // which ignored identity swallowed it?
            let near: Option<&Identity> = ids.iter().find(|i| i.message == id.message && i.flagged == id.flagged && i.kind == id.kind && i.suggestions == id.suggestions);
            let differs = near.map(|n| {
                let mut d = vec![];
                if n.before != id.before {
                    d.push("before");
                }
                if n.after != id.after {
                    d.push("after");
                }
                d.join("+")
            });
            viol(
                res,
                "C14",
                "only_that_lint_hidden",
                "distinct_lint_swallowed",
                format!(
                    "{what}: the lint '{}' on '{}' at {}..{} (tokens before {:?}, after {:?}) differs from every ignored lint{} but is not reported (text: {:?})",
                    r.message,
                    id.flagged,
                    r.span.start,
                    r.span.end,
                    id.before,
                    id.after,
                    near.map(|n| format!(" — the nearest ignored one has tokens before {:?}, after {:?}", n.before, n.after)).unwrap_or_default(),
                    text.iter().take(160).collect::<String>()
                ),
                json!({"differs_in": differs, "flagged_len": id.flagged.chars().count(), "start": r.span.start}),
            );
            return;
        }
    }
    // nothing may be invented
    for a in actual {
        if !reference.iter().any(|r| r == a) {
            viol(res, "C14", "nothing_invented", "lint_not_in_reference", format!("{what}: reported lint {:?} is not among the lints of a fresh linter", a), json!({}));
            return;
        }
    }
}

// ------------------------------------------------------------------ target 1: core IgnoredLints as harper-ls drives it

fn run_core(job: &Job, res: &mut RunResult) {
    let mut rng = Rng::derive(job.seed, "workload");
    let dict = FstDictionary::curated();
    let markdown = rng.chance(1, 2);
    let parser = parser_for(markdown);
    let mut linter = LintGroup::new_curated(dict.clone(), Dialect::American);
    let mut ignored = IgnoredLints::new();
    let mut tracked: Vec<Tracked> = vec![];
    let mut text: Vec<char> = corpus::paragraphs(&mut rng).join("\n\n").chars().collect();
    let nops = rng.range(6, 30);
    let mut script: Vec<String> = vec![format!("text {:?}", text.iter().collect::<String>())];
    let mut sig = fnv1a(text.iter().collect::<String>().as_bytes());
    for step in 0..nops {
        crumb(format!("lint({:?})", text.iter().collect::<String>()));
        let doc = Document::new_from_vec(Arc::new(text.clone()), &parser, &dict);
        let mut fresh = LintGroup::new_curated(dict.clone(), Dialect::American);
        let reference = fresh.lint(&doc);
        let mut actual = linter.lint(&doc);
        ignored.remove_ignored(&mut actual, &doc);
        res.count("evaluations", 1);
        check_ignore_semantics(res, &format!("core step {step}"), &text, markdown, &doc, &reference, &actual, &tracked);
        if !res.violations.is_empty() {
            break;
        }
        let op = rng.below(10);
        sig = sig.wrapping_mul(0x100000001B3) ^ op as u64;
        match op {
            0..=2 if !actual.is_empty() => {
                let l = rng.pick(&actual).clone();
                ignored.ignore_lint(&l, &doc);
                tracked.push(Tracked { fat: fat_view(&l, &doc), id: identity(&l, &doc), span: Some((l.span.start, l.span.end)), markdown });
                script.push(format!("ignore {:?} '{}'", l.span, l.message));
                res.count("c14_ignores", 1);
                // idempotent
                if rng.chance(1, 4) {
                    ignored.ignore_lint(&l, &doc);
                }
            }
            3 => {
                // export / import through JSON (what harper-ls clients and harper.js persist)
                let j = serde_json::to_string(&ignored).unwrap();
                match serde_json::from_str::<IgnoredLints>(&j) {
                    Ok(back) => {
                        let j2 = serde_json::to_string(&back).unwrap();
                        let (mut a, mut b): (Vec<u64>, Vec<u64>) = (serde_json::from_str::<Value>(&j).ok().and_then(|v| serde_json::from_value(v["context_hashes"].clone()).ok()).unwrap_or_default(), serde_json::from_str::<Value>(&j2).ok().and_then(|v| serde_json::from_value(v["context_hashes"].clone()).ok()).unwrap_or_default());
                        a.sort();
                        b.sort();
                        if a != b {
                            viol(res, "C14", "export_import", "ignore_list_roundtrip", "IgnoredLints changed over a JSON round trip".into(), json!({}));
                        }
                        ignored = back;
                        res.count("c14_roundtrips", 1);
                    }
                    Err(e) => viol(res, "C14", "export_import", "ignore_list_roundtrip", format!("IgnoredLints does not deserialize from its own JSON: {e}"), json!({})),
                }
                script.push("roundtrip".into());
            }
            _ => {
                let near = if rng.chance(1, 3) { gen_edit_near(&text, &tracked, &mut rng) } else { None };
                if near.is_some() {
                    res.count("c14_edits_next_to_neighbourhood", 1);
                }
                let e = match near {
                    Some(e) => e,
                    None => gen_edit(&text, &mut rng),
                };
                script.push(format!("edit @{} -{} +{:?}", e.pos, e.del, e.ins.iter().collect::<String>()));
                apply_edit(&mut text, &e, &mut tracked);
                res.count("c14_edits", 1);
                if tracked.iter().any(|t| t.span.is_some()) {
                    res.count("ignored_lint_survived_edit", 1);
                }
            }
        }
    }
    res.signature = sig;
    res.nontrivial = res.counters.get("c14_ignores").copied().unwrap_or(0) > 0;
    res.sample = Some(json!({"engine":"api-sim","target":"core","markdown":markdown,"script":script}));
}

// ------------------------------------------------------------------ target 2: harper_wasm::Linter

fn inner_lints(lints: &[harper_wasm::Lint]) -> Vec<Lint> {
    lints
        .iter()
        .map(|l| {
            let v: Value = serde_json::from_str(&l.to_json()).unwrap_or(Value::Null);
            serde_json::from_value::<Lint>(v["inner"].clone()).expect("inner lint")
        })
        .collect()
}

fn lints_json(lints: &[harper_wasm::Lint]) -> Vec<String> {
    lints.iter().map(|l| l.to_json()).collect()
}

struct WasmModel {
    dialect: harper_wasm::Dialect,
    words: Vec<String>,
    config: BTreeMap<String, bool>,
    tracked: Vec<Tracked>,
    stats_records: usize,
}

fn fresh_linter(m: &WasmModel, ignored_json: Option<&str>) -> Linter {
    let mut f = Linter::new(m.dialect);
    if !m.words.is_empty() {
        f.import_words(m.words.clone());
    }
    if !m.config.is_empty() {
        let _ = f.set_lint_config_from_json(serde_json::to_string(&m.config).unwrap());
    }
    if let Some(j) = ignored_json {
        let _ = f.import_ignored_lints(j.to_string());
    }
    f
}

fn lang(markdown: bool) -> Language {
    if markdown { Language::Markdown } else { Language::Plain }
}

fn run_wasm(job: &Job, res: &mut RunResult) {
    let prop = job.prop.as_str();
    let mut rng = Rng::derive(job.seed, "workload");
    let dialect = *rng.pick(&[harper_wasm::Dialect::American, harper_wasm::Dialect::British, harper_wasm::Dialect::Australian, harper_wasm::Dialect::Canadian]);
    let mut m = WasmModel { dialect, words: vec![], config: BTreeMap::new(), tracked: vec![], stats_records: 0 };
    let mut long = Linter::new(dialect);
    // most runs avoid importing two words that differ only in letter case / apostrophe style
    // (a known, separately recorded defect of the dictionary); one run in eight allows them
    let allow_variants = rng.chance(1, 8);
    let norm = |w: &str| w.to_lowercase().replace(['’', '‘'], "'");
    let mut markdown = rng.chance(1, 2);
    let mut text: Vec<char> = if rng.chance(1, 3) {
        corpus::wrap("markdown", &corpus::paragraphs(&mut rng), &mut rng).chars().collect()
    } else {
        corpus::paragraphs(&mut rng).join("\n\n").chars().collect()
    };
    let nops = rng.range(6, 36);
    let mut script: Vec<String> = vec![format!("new {:?}; text {:?}", dialect, text.iter().collect::<String>())];
    if prop == "C14" && rng.chance(1, 2) {
        // C14 keeps the dictionary fixed during the history, but not empty: the user has taught the
        // linter some of the words of this very text before the history starts
        let s0: String = text.iter().collect();
        let first = long.lint(s0, lang(markdown));
        let mut ws: Vec<String> = vec![];
        for (w, l) in first.iter().zip(inner_lints(&first).iter()) {
            if l.lint_kind.is_spelling() && rng.chance(1, 2) {
                let t = w.get_problem_text();
                if !ws.iter().any(|x: &String| norm(x) == norm(&t)) {
                    ws.push(t);
                }
            }
        }
        if !ws.is_empty() {
            long.import_words(ws.clone());
            m.words = ws.clone();
            script.push(format!("import_words {ws:?} (before the history)"));
            res.count("c14_user_words_present", 1);
        }
    }
    let mut sig = fnv1a(text.iter().collect::<String>().as_bytes());
    for step in 0..nops {
        let s: String = text.iter().collect();
        crumb(format!("lint({:?}, {})", s, if markdown { "Markdown" } else { "Plain" }));
        let actual_w = long.lint(s.clone(), lang(markdown));
        res.count("evaluations", 1);
        let actual = inner_lints(&actual_w);
        let what = format!("wasm step {step} ({})", if markdown { "Markdown" } else { "Plain" });

        // ---- C16 (1): inside the text, non-overlapping, problem text = characters at the span
        if prop == "C16" {
            let mut spans: Vec<(usize, usize)> = vec![];
            for (w, l) in actual_w.iter().zip(actual.iter()) {
                let sp = w.span();
                if sp.start > sp.end || sp.end > text.len() {
                    viol(res, "C16", "spans_inside_text", "span_outside_text", format!("{what}: lint span {}..{} outside the text of {} characters", sp.start, sp.end, text.len()), json!({}));
                    break;
                }
                let here: String = text[sp.start..sp.end].iter().collect();
                if w.get_problem_text() != here {
                    viol(res, "C16", "problem_text", "problem_text_differs", format!("{what}: problem text {:?} but the characters at {}..{} are {:?}", w.get_problem_text(), sp.start, sp.end, here), json!({}));
                    break;
                }
                if (sp.start, sp.end) != (l.span.start, l.span.end) {
                    viol(res, "C16", "span_getter", "span_getter_differs", format!("{what}: span() disagrees with the serialised lint"), json!({}));
                    break;
                }
                spans.push((sp.start, sp.end));
            }
            spans.sort();
            for w in spans.windows(2) {
                if w[1].0 < w[0].1 {
                    viol(res, "C16", "no_overlap", "lints_overlap", format!("{what}: lints {:?} and {:?} overlap", w[0], w[1]), json!({}));
                    break;
                }
            }
            res.count("c16_lint_results_checked", 1);
            if !actual.is_empty() {
                res.count("c16_nonempty_results", 1);
            }
            // ---- C16 (2): refinement against the shortest history that reaches the model's state
            let exported = long.export_ignored_lints();
            let mut fresh = fresh_linter(&m, Some(&exported));
            let want = lints_json(&fresh.lint(s.clone(), lang(markdown)));
            let got = lints_json(&actual_w);
            if want != got {
                let missing: Vec<&String> = want.iter().filter(|x| !got.contains(x)).collect();
                let extra: Vec<&String> = got.iter().filter(|x| !want.contains(x)).collect();
                viol(
                    res,
                    "C16",
                    "equals_fresh_linter_in_same_state",
                    if missing.is_empty() && extra.is_empty() {
                        "order_differs"
                    } else if has_variant_pair(&m.words) && missing.iter().chain(extra.iter()).all(|j| j.contains("\"Spelling\"")) {
                        "case_variant_words"
                    } else {
                        "differs_from_fresh"
                    },
                    format!(
                        "{what}: the long-lived linter's result differs from that of a fresh linter given the same words ({:?}), configuration ({:?}) and ignore list; missing {:?}; extra {:?}; text {:?}",
                        m.words,
                        m.config,
                        missing.iter().take(3).collect::<Vec<_>>(),
                        extra.iter().take(3).collect::<Vec<_>>(),
                        s.chars().take(200).collect::<String>()
                    ),
                    json!({"words": m.words.len(), "config": m.config.len()}),
                );
            }
        }
        // ---- C14 on the JS-facing object
        if prop == "C14" {
            let dict = merged_dict(&m.words);
            let parser = parser_for(markdown);
            let doc = Document::new_from_vec(Arc::new(text.clone()), &parser, &dict);
            let mut noign = fresh_linter(&m, None);
            let reference = inner_lints(&noign.lint(s.clone(), lang(markdown)));
            check_ignore_semantics(res, &what, &text, markdown, &doc, &reference, &actual, &m.tracked);
        }
        if !res.violations.is_empty() {
            break;
        }

        // C14 keeps the dictionary fixed: the property is about edits of the document
        let op = rng.below(if prop == "C14" { 8 } else { 16 });
        sig = sig.wrapping_mul(0x100000001B3) ^ op as u64;
        match op {
            0 | 1 if !actual_w.is_empty() => {
                // ignore_lint: the next lint of the same text is the previous result minus exactly that lint
                let k = rng.below(actual_w.len());
                let l = harper_wasm::Lint::from_json(actual_w[k].to_json()).expect("lint json");
                let before = lints_json(&actual_w);
                let dict = merged_dict(&m.words);
                let doc = Document::new_from_vec(Arc::new(text.clone()), &parser_for(markdown), &dict);
                let id = identity(&actual[k], &doc);
                long.ignore_lint(s.clone(), l);
                m.tracked.push(Tracked { fat: fat_view(&actual[k], &doc), id: id.clone(), span: Some((actual[k].span.start, actual[k].span.end)), markdown });
                script.push(format!("ignore_lint #{k} '{}'", actual[k].message));
                res.count("c14_ignores", 1);
                let after_w = long.lint(s.clone(), lang(markdown));
                let after = lints_json(&after_w);
                if prop == "C16" {
                    // everything with the same identity may go; everything else must stay, nothing may appear
                    let after_inner = inner_lints(&after_w);
                    let mut ok = !after.contains(&before[k]);
                    let mut detail = String::new();
                    if !ok {
                        detail = "the ignored lint is still returned".into();
                    }
                    for (i, b) in before.iter().enumerate() {
                        if i == k {
                            continue;
                        }
                        if !after.contains(b) && identity(&actual[i], &doc) != id {
                            ok = false;
                            detail = format!("a different lint disappeared too: {}", b.chars().take(160).collect::<String>());
                        }
                    }
                    if after_inner.iter().any(|a| !actual.contains(a)) {
                        ok = false;
                        detail = "a lint appeared that was not there before".into();
                    }
                    res.count("c16_ignore_checked", 1);
                    if !ok {
                        viol(res, "C16", "ignore_removes_exactly_that_lint", "ignore_effect", format!("{what}: after ignore_lint of '{}' on {:?}: {detail}", actual[k].message, id.flagged), json!({}));
                    }
                }
            }
            2 => {
                // export -> clear -> import restores the same results
                let before = lints_json(&long.lint(s.clone(), lang(markdown)));
                let exported = long.export_ignored_lints();
                long.clear_ignored_lints();
                let cleared = lints_json(&long.lint(s.clone(), lang(markdown)));
                let mut noign = fresh_linter(&m, None);
                let all = lints_json(&noign.lint(s.clone(), lang(markdown)));
                if cleared != all {
                    let missing: Vec<&String> = all.iter().filter(|x| !cleared.contains(x)).collect();
                    let extra: Vec<&String> = cleared.iter().filter(|x| !all.contains(x)).collect();
                    viol(
                        res,
                        prop,
                        "clear_ignored",
                        if missing.is_empty() && extra.is_empty() { "order_differs" } else { "clear_incomplete" },
                        format!("{what}: after clear_ignored_lints the result differs from a linter that never ignored anything; missing {:?}; extra {:?}", missing.iter().take(2).collect::<Vec<_>>(), extra.iter().take(2).collect::<Vec<_>>()),
                        json!({}),
                    );
                }
                if let Err(e) = long.import_ignored_lints(exported.clone()) {
                    viol(res, prop, "export_import_ignored", "import_failed", format!("{what}: import_ignored_lints rejects what export_ignored_lints produced: {e}"), json!({}));
                }
                let after = lints_json(&long.lint(s.clone(), lang(markdown)));
                if before != after {
                    viol(res, prop, "export_import_ignored", "ignore_list_roundtrip", format!("{what}: export, clear, import of the ignore list changed the results"), json!({}));
                }
                if long.export_ignored_lints().len() != exported.len() && rng.chance(1, 1) {
                    // same set of hashes (order may differ)
                    let parse = |j: &str| -> Vec<u64> {
                        let mut v: Vec<u64> = serde_json::from_str::<Value>(j).ok().and_then(|v| serde_json::from_value(v["context_hashes"].clone()).ok()).unwrap_or_default();
                        v.sort();
                        v
                    };
                    if parse(&long.export_ignored_lints()) != parse(&exported) {
                        viol(res, prop, "export_import_ignored", "ignore_list_roundtrip", format!("{what}: the exported ignore list changed over export/clear/import"), json!({}));
                    }
                }
                // importing a list into a linter that already holds (other) entries is a union:
                // importing what it already has changes nothing
                let _ = long.import_ignored_lints(exported);
                let again = lints_json(&long.lint(s.clone(), lang(markdown)));
                if again != after {
                    viol(res, prop, "export_import_ignored", "ignore_list_roundtrip", format!("{what}: importing its own export a second time changed the results"), json!({}));
                }
                res.count("c14_roundtrips", 1);
                script.push("export/clear/import ignored".into());
            }
            3..=6 if prop == "C14" => {
                let near = if rng.chance(1, 3) { gen_edit_near(&text, &m.tracked, &mut rng) } else { None };
                if near.is_some() {
                    res.count("c14_edits_next_to_neighbourhood", 1);
                }
                let e = match near {
                    Some(e) => e,
                    None => gen_edit(&text, &mut rng),
                };
                script.push(format!("edit @{} -{} +{:?}", e.pos, e.del, e.ins.iter().collect::<String>()));
                apply_edit(&mut text, &e, &mut m.tracked);
                res.count("c14_edits", 1);
                if m.tracked.iter().any(|t| t.span.is_some()) {
                    res.count("ignored_lint_survived_edit", 1);
                }
            }
            3 | 4 => {
                let e = gen_edit(&text, &mut rng);
                script.push(format!("edit @{} -{} +{:?}", e.pos, e.del, e.ins.iter().collect::<String>()));
                apply_edit(&mut text, &e, &mut m.tracked);
            }
            7 | 5 => {
                markdown = !markdown;
                script.push(format!("language -> {}", if markdown { "Markdown" } else { "Plain" }));
                res.count("language_switched", 1);
            }
            8 | 6 => {
                // import words: flagged words of the current text, or corpus words
                let mut ws: Vec<String> = vec![];
                for (w, l) in actual_w.iter().zip(actual.iter()) {
                    if l.lint_kind.is_spelling() && rng.chance(1, 2) {
                        ws.push(w.get_problem_text());
                    }
                }
                if ws.is_empty() || rng.chance(1, 3) {
                    ws.push(rng.pick(corpus::WORDS).to_string());
                }
                if !allow_variants {
                    let mut kept: Vec<String> = vec![];
                    for w in ws {
                        let clash = m.words.iter().chain(kept.iter()).any(|x| *x != w && norm(x) == norm(&w));
                        if !clash {
                            kept.push(w);
                        }
                    }
                    ws = kept;
                    if ws.is_empty() {
                        continue;
                    }
                }
                long.import_words(ws.clone());
                for w in &ws {
                    if !m.words.contains(w) {
                        m.words.push(w.clone());
                    }
                }
                script.push(format!("import_words {ws:?}"));
                res.count("c16_import_words", 1);
                if prop == "C16" && rng.chance(1, 3) {
                    // straight away, with no lint call in between: ignore one of the lints that the
                    // import cannot have removed (state that a lazy implementation has not caught up with)
                    let cands: Vec<usize> = (0..actual.len())
                        .filter(|&i| {
                            let flagged: String = text[actual[i].span.start..actual[i].span.end.min(text.len())].iter().collect();
                            !(actual[i].lint_kind.is_spelling() && ws.iter().any(|w| norm(w) == norm(&flagged)))
                        })
                        .collect();
                    if !cands.is_empty() {
                        let k = *rng.pick(&cands);
                        // is that very lint still produced in the new state?
                        let mut fresh = fresh_linter(&m, Some(&long.export_ignored_lints()));
                        let now = inner_lints(&fresh.lint(s.clone(), lang(markdown)));
                        if now.contains(&actual[k]) {
                            let l = harper_wasm::Lint::from_json(actual_w[k].to_json()).expect("lint json");
                            long.ignore_lint(s.clone(), l);
                            let dict = merged_dict(&m.words);
                            let doc = Document::new_from_vec(Arc::new(text.clone()), &parser_for(markdown), &dict);
                            m.tracked.push(Tracked { fat: fat_view(&actual[k], &doc), id: identity(&actual[k], &doc), span: Some((actual[k].span.start, actual[k].span.end)), markdown });
                            script.push(format!("ignore_lint #{k} '{}' (right after import_words)", actual[k].message));
                            res.count("c16_ignore_right_after_import", 1);
                            let after = inner_lints(&long.lint(s.clone(), lang(markdown)));
                            if after.contains(&actual[k]) {
                                viol(res, "C16", "ignore_removes_exactly_that_lint", "ignore_effect", format!("{what}: ignore_lint of '{}' called right after import_words({ws:?}) has no effect: the lint is still returned", actual[k].message), json!({"after_import": true}));
                            }
                        }
                    }
                }
                // imported words are no longer misspelt (C07's JS half), and export returns them
                let after = inner_lints(&long.lint(s.clone(), lang(markdown)));
                for l in &after {
                    if l.lint_kind.is_spelling() {
                        let flagged: String = text[l.span.start..l.span.end.min(text.len())].iter().collect();
                        if ws.contains(&flagged) {
                            let fchars: Vec<char> = flagged.chars().collect();
                            let other_dialect = {
                                use harper_core::Dictionary as _;
                                let d: harper_core::Dialect = dialect.into();
                                FstDictionary::curated().get_word_metadata(&fchars).and_then(|md| md.dialect).map(|x| x != d).unwrap_or(false)
                            };
                            let class = if has_variant_pair(&m.words) {
                                "case_variant_words"
                            } else if other_dialect {
                                "other_dialect_word_added"
                            } else {
                                "imported_word_flagged"
                            };
                            viol(res, prop, "imported_word_accepted", class, format!("{what}: '{flagged}' was imported with import_words and is still reported as misspelt"), json!({}));
                        }
                    }
                }
                let exported = long.export_words();
                for w in &m.words {
                    if !exported.contains(w) {
                        let class = if has_variant_pair(&m.words) && exported.iter().any(|x| norm(x) == norm(w)) { "case_variant_words" } else { "word_not_exported" };
                        viol(res, prop, "export_words", class, format!("{what}: imported word '{w}' is missing from export_words() = {exported:?}"), json!({}));
                    }
                }
            }
            9 => {
                // exporting then importing the custom words into a new linter restores the behaviour
                let exported = long.export_words();
                let mut other = Linter::new(dialect);
                other.import_words(exported.clone());
                if !m.config.is_empty() {
                    let _ = other.set_lint_config_from_json(serde_json::to_string(&m.config).unwrap());
                }
                let _ = other.import_ignored_lints(long.export_ignored_lints());
                let a = lints_json(&long.lint(s.clone(), lang(markdown)));
                let b = lints_json(&other.lint(s.clone(), lang(markdown)));
                if a != b {
                    let class = if has_variant_pair(&m.words) { "case_variant_words" } else { "words_roundtrip" };
                    viol(res, "C16", "export_import_words", class, format!("{what}: a linter that imports export_words() = {exported:?} behaves differently"), json!({"variants": m.words.len() != exported.len()}));
                }
                res.count("c16_words_roundtrip", 1);
                script.push("export/import words".into());
            }
            10 | 11 => {
                let rule = *rng.pick(&["SpellCheck", "AnA", "RepeatedWords", "SentenceCapitalization", "Spaces", "CorrectNumberSuffix", "ThenThan", "SpelledNumbers", "LongSentences", "BoringWords"]);
                let val = rng.chance(1, 2);
                let j = if rng.chance(1, 5) { json!({rule: Value::Null}) } else { json!({rule: val}) };
                if !j[rule].is_null() {
                    m.config.insert(rule.to_string(), val);
                }
                if let Err(e) = long.set_lint_config_from_json(j.to_string()) {
                    viol(res, "C16", "set_config", "config_rejected", format!("{what}: set_lint_config_from_json rejected {j}: {e}"), json!({}));
                }
                // what the linter reports as its configuration contains every explicit choice
                let got: Value = serde_json::from_str(&long.get_lint_config_as_json()).unwrap_or(Value::Null);
                for (k, v) in &m.config {
                    if got[k] != json!(v) {
                        viol(res, "C16", "get_config", "config_lost", format!("{what}: rule {k} was set to {v} but get_lint_config_as_json says {}", got[k]), json!({}));
                    }
                }
                res.count("c16_config_set", 1);
                script.push(format!("set_lint_config {j}"));
            }
            12 | 13 if !actual_w.is_empty() => {
                // apply_suggestion equals an independent splice on the character vector
                let k = rng.below(actual_w.len());
                let sugs = actual_w[k].suggestions();
                if !sugs.is_empty() {
                    let si = rng.below(sugs.len());
                    let l = &actual[k];
                    let mut want: Vec<char> = text[..l.span.start].to_vec();
                    match &l.suggestions[si] {
                        Suggestion::ReplaceWith(c) => want.extend(c.iter()),
                        Suggestion::Remove => {}
                        Suggestion::InsertAfter(c) => {
                            want.extend(text[l.span.start..l.span.end].iter());
                            want.extend(c.iter());
                        }
                    }
                    want.extend(text[l.span.end..].iter());
                    let want: String = want.into_iter().collect();
                    match long.apply_suggestion(s.clone(), &actual_w[k], &sugs[si]) {
                        Ok(got) => {
                            m.stats_records += 1;
                            res.count("c16_suggestions_applied", 1);
                            if got != want {
                                viol(
                                    res,
                                    "C16",
                                    "apply_suggestion",
                                    "apply_differs",
                                    format!("{what}: apply_suggestion({:?}) on span {:?} returned {:?}, an independent splice gives {:?}", l.suggestions[si], l.span, got.chars().take(200).collect::<String>(), want.chars().take(200).collect::<String>()),
                                    json!({}),
                                );
                            } else if rng.chance(1, 2) {
                                text = got.chars().collect();
                                for t in m.tracked.iter_mut() {
                                    t.span = None;
                                }
                            }
                        }
                        Err(e) => viol(res, "C16", "apply_suggestion", "apply_failed", format!("{what}: apply_suggestion failed: {e}"), json!({})),
                    }
                    script.push(format!("apply_suggestion #{k}.{si}"));
                }
            }
            14 => {
                // JSON round trips of lints, spans, suggestions
                for w in &actual_w {
                    let j = w.to_json();
                    match harper_wasm::Lint::from_json(j.clone()) {
                        Ok(b) if b.to_json() == j => {}
                        Ok(b) => viol(res, "C16", "json_roundtrip", "lint_json", format!("{what}: Lint JSON changed over a round trip: {j} -> {}", b.to_json()), json!({})),
                        Err(e) => viol(res, "C16", "json_roundtrip", "lint_json", format!("{what}: Lint::from_json rejects to_json output: {e}"), json!({})),
                    }
                    let sp = w.span();
                    let sj = sp.to_json();
                    match harper_wasm::Span::from_json(sj.clone()) {
                        Ok(b) if b.to_json() == sj && b.start == sp.start && b.end == sp.end => {}
                        _ => viol(res, "C16", "json_roundtrip", "span_json", format!("{what}: Span JSON {sj} does not round trip"), json!({})),
                    }
                    for sg in w.suggestions() {
                        let gj = sg.to_json();
                        match harper_wasm::Suggestion::from_json(gj.clone()) {
                            Ok(b) if b.to_json() == gj && b.get_replacement_text() == sg.get_replacement_text() => {}
                            _ => viol(res, "C16", "json_roundtrip", "suggestion_json", format!("{what}: Suggestion JSON {gj} does not round trip"), json!({})),
                        }
                    }
                    res.count("c16_json_roundtrips", 1);
                }
                script.push("json round trips".into());
            }
            15 => {
                // import_stats_file(generate_stats_file()) doubles the record list, in order
                let f1 = long.generate_stats_file();
                let n1 = f1.lines().count();
                if n1 != m.stats_records {
                    viol(res, "C16", "stats", "stats_count", format!("{what}: {} suggestions applied but the statistics file has {} lines", m.stats_records, n1), json!({}));
                }
                match long.import_stats_file(f1.clone()) {
                    Ok(()) => {
                        let f2 = long.generate_stats_file();
                        if f2 != format!("{f1}{f1}") {
                            viol(res, "C16", "stats", "stats_roundtrip", format!("{what}: importing the generated statistics file did not append exactly its records"), json!({}));
                        }
                        m.stats_records *= 2;
                        res.count("c16_stats_roundtrips", 1);
                    }
                    Err(e) => viol(res, "C16", "stats", "stats_roundtrip", format!("{what}: import_stats_file rejects generate_stats_file output: {e}"), json!({})),
                }
                script.push("stats round trip".into());
            }
            _ => {}
        }
        if !res.violations.is_empty() {
            break;
        }
    }
    res.signature = sig;
    res.nontrivial = script.len() > 3;
    res.sample = Some(json!({"engine":"api-sim","target":"wasm","script":script}));
}

static DEBUG: std::sync::atomic::AtomicBool = std::sync::atomic::AtomicBool::new(false);

thread_local! {
    /// What the API was last asked to do (for reports about a panic inside the library).
    static BREADCRUMB: std::cell::RefCell<String> = const { std::cell::RefCell::new(String::new()) };
}

fn crumb(s: String) {
    BREADCRUMB.with(|b| *b.borrow_mut() = s);
}

pub fn run(job: &Job) -> RunResult {
    let mut res = RunResult::new(job);
    let target = job.params.get("target").and_then(|v| v.as_str()).unwrap_or("wasm").to_string();
    DEBUG.store(job.params.get("debug").and_then(|v| v.as_bool()).unwrap_or(false), std::sync::atomic::Ordering::Relaxed);
    let r = std::panic::catch_unwind(std::panic::AssertUnwindSafe(|| match target.as_str() {
        "core" => run_core(job, &mut res),
        _ => run_wasm(job, &mut res),
    }));
    if let Err(p) = r {
        // a panic inside Harper while serving an API call
        let msg = p.downcast_ref::<&str>().map(|s| s.to_string()).or_else(|| p.downcast_ref::<String>().cloned()).unwrap_or_else(|| "panic".into());
        let loc = crate::exec::LAST_PANIC_LOCATION.lock().map(|l| l.clone()).unwrap_or_default();
        let loc = loc.strip_prefix("/repo/").unwrap_or(&loc).to_string();
        let what = BREADCRUMB.with(|b| b.borrow().clone());
        if !loc.starts_with("harper-") {
            res.harness(format!("harness panic at {loc}: {msg}"));
        } else if job.prop == "C16" {
            viol(
                &mut res,
                "C16",
                "call_returns",
                "api_panic",
                format!("a call on the JS-facing linter panicked at {loc}: {msg}; last call: {what}"),
                json!({"location": loc}),
            );
        } else {
            // not this property's business (C14 is about what lint returns, C10 about side effects):
            // the history ends here
            res.count("history_cut_by_library_panic", 1);
            eprintln!("note: library panic at {loc}: {msg}; last call: {what}");
        }
    }
    res.steps = res.counters.get("evaluations").copied().unwrap_or(0);
    if job.prop == "C10" {
        // under C10 only the closed-world oracle speaks; the API oracles belong to C14/C16
        res.violations.clear();
        if matches!(res.verdict, crate::job::Verdict::Violation(_)) {
            res.verdict = crate::job::Verdict::Ok;
        }
    }
    crate::seam::library_closed_world_check(job, &mut res);
    res.log_hash = res.signature ^ fnv1a(format!("{:?}{:?}", res.counters, res.violations.len()).as_bytes());
    if job.want_trace || !res.violations.is_empty() {
        res.trace = res.sample.clone().map(|mut s| {
            s["seed"] = json!(job.seed);
            s
        });
    }
    res
}
