//! `hsim check` / `hsim replay`: run the batches of a property, aggregate the
//! results, minimise and report violations, write the evidence file.

use crate::job::{Job, RunResult, Verdict, Violation};
use crate::orch::Pool;
use crate::props;
use crate::rng::{fnv1a, run_seed};
use serde_json::{Value, json};
use std::collections::{BTreeMap, BTreeSet, HashSet};
use std::time::Instant;

pub const DEFAULT_SEED: u64 = 20260926;
const VERIF: &str = "/verif";

pub struct Opts {
    pub prop: String,
    pub tier: String,
    pub seed: u64,
    pub workers: usize,
    /// scale the number of runs (testing the harness itself)
    pub scale: f64,
    pub only_batch: Option<String>,
    pub write_evidence: bool,
    /// dump per-run log hashes to this file (determinism proof)
    pub hash_log: Option<String>,
    pub max_minimise: usize,
}

#[derive(Clone, Debug, serde::Deserialize)]
struct Known {
    status: String,
    property: String,
    #[serde(default)]
    class: String,
    #[serde(default)]
    facts: Value,
    what: String,
}

fn load_known() -> Vec<Known> {
    let p = format!("{VERIF}/known_findings.jsonl");
    let Ok(s) = std::fs::read_to_string(p) else { return vec![] };
    s.lines()
        .filter(|l| !l.trim().is_empty() && !l.trim_start().starts_with('#'))
        .filter_map(|l| serde_json::from_str::<Known>(l).ok())
        .collect()
}

fn facts_match(pattern: &Value, facts: &Value) -> bool {
    match pattern {
        Value::Null => true,
        Value::Object(m) => m.iter().all(|(k, v)| facts.get(k).map(|f| facts_match(v, f)).unwrap_or(false)),
        other => other == facts,
    }
}

fn known_match<'a>(known: &'a [Known], v: &Violation) -> Option<&'a Known> {
    known
        .iter()
        .find(|k| k.status == "known" && k.property == v.property && k.class == v.class && facts_match(&k.facts, &v.facts))
}

#[derive(Default)]
pub struct Agg {
    pub runs: u64,
    pub counters: BTreeMap<String, u64>,
    pub sigs: HashSet<u64>,
    pub nontrivial_sigs: HashSet<u64>,
    pub states: HashSet<u64>,
    pub sim_nanos: i128,
    pub steps: u64,
    pub harness_errors: Vec<String>,
    /// first violating result per violation class
    pub violations: BTreeMap<String, (Job, RunResult, Violation)>,
    pub violating_runs: u64,
    pub samples: Vec<Value>,
    pub hashes: BTreeMap<String, u64>,
    /// traces of base histories whose crash points are to be enumerated
    pub enum_bases: Vec<(Job, Value)>,
    /// runs that exceeded the wall-clock watchdog
    pub hung: Vec<Job>,
    /// runs of the same history in different hash universes: seed -> (universe, per-operation digests)
    pub universe_groups: BTreeMap<u64, Vec<(u64, Vec<u64>, Job)>>,
}

impl Agg {
    fn add(&mut self, job: &Job, r: RunResult) {
        self.runs += 1;
        if job.params.get("enumerate_crash_points").and_then(|v| v.as_bool()).unwrap_or(false) && r.violations.is_empty() {
            if let Some(t) = &r.trace {
                self.enum_bases.push((job.clone(), t.clone()));
            }
        }
        for (k, v) in &r.counters {
            *self.counters.entry(k.clone()).or_insert(0) += *v;
        }
        self.sigs.insert(r.signature);
        if r.nontrivial {
            self.nontrivial_sigs.insert(r.signature);
        }
        for s in &r.states {
            self.states.insert(*s);
        }
        if let Some(u) = job.params.get("universe").and_then(|v| v.as_u64()) {
            if r.violations.is_empty() && matches!(r.verdict, Verdict::Ok) {
                self.universe_groups.entry(r.seed).or_default().push((u, r.states.clone(), job.clone()));
            }
        }
        self.sim_nanos += r.sim_nanos as i128;
        self.steps += r.steps;
        let variant = job.params.get("variant").and_then(|v| v.as_str()).unwrap_or("-");
        let uni = job.params.get("universe").and_then(|v| v.as_u64()).unwrap_or(0);
        self.hashes.insert(format!("{:020}:{}:u{}", r.seed, variant, uni), r.log_hash);
        if r.counters.get("hang").copied().unwrap_or(0) > 0 && self.hung.len() < 3 {
            self.hung.push(job.clone());
        }
        if let Verdict::Harness(m) = &r.verdict {
            if self.harness_errors.len() < 20 {
                self.harness_errors.push(format!("run {} seed {}: {}", r.idx, r.seed, m));
            }
        }
        if !r.violations.is_empty() {
            self.violating_runs += 1;
            for v in r.violations.clone() {
                let key = format!("{}|{}", v.property, v.class);
                let better = match self.violations.get(&key) {
                    None => true,
                    Some((j, _, _)) => job.idx < j.idx,
                };
                if better {
                    self.violations.insert(key, (job.clone(), r.clone(), v));
                }
            }
        }
        if let Some(s) = &r.sample {
            if self.samples.len() < 3 && (r.nontrivial || self.runs > 50) {
                self.samples.push(s.clone());
            }
        }
    }
}

fn make_jobs(o: &Opts, pool: &Pool) -> Vec<Job> {
    let mut jobs = vec![];
    let mut idx = 0u64;
    for b in props::batches(&o.prop, &o.tier) {
        if let Some(only) = &o.only_batch {
            if only != b.label {
                continue;
            }
        }
        let n = ((b.runs as f64) * o.scale).ceil().max(1.0) as u64;
        let bseed = o.seed ^ fnv1a(format!("{}:{}", o.prop, b.label).as_bytes());
        for i in 0..n {
            let mut params = b.params.clone();
            params["batch"] = json!(b.label);
            let want_trace = params.get("enumerate_crash_points").and_then(|v| v.as_bool()).unwrap_or(false);
            // the same history in several hash universes ("which process")
            let universes = params.get("universes").and_then(|v| v.as_u64()).unwrap_or(0);
            for u in 1..universes {
                let mut p = params.clone();
                p["universe"] = json!(u);
                jobs.push(Job {
                    engine: b.engine.to_string(),
                    prop: o.prop.clone(),
                    tier: o.tier.clone(),
                    idx,
                    seed: run_seed(bseed, i),
                    params: p,
                    replay_file: None,
                    want_trace: false,
                    scratch: pool.scratch.clone(),
                });
                idx += 1;
            }
            if universes > 0 {
                params["universe"] = json!(0);
            }
            jobs.push(Job {
                engine: b.engine.to_string(),
                prop: o.prop.clone(),
                tier: o.tier.clone(),
                idx,
                seed: run_seed(bseed, i),
                params,
                replay_file: None,
                want_trace,
                scratch: pool.scratch.clone(),
            });
            idx += 1;
        }
    }
    jobs
}

/// Re-run candidate traces in parallel; returns the first (lowest index) that still
/// shows a violation of the wanted class.
fn try_traces(pool: &Pool, base: &Job, cands: &[Value], class: &str, round: usize, wd: u32) -> Option<(usize, RunResult, Violation)> {
    let dir = format!("{}/min", pool.scratch);
    let _ = std::fs::create_dir_all(&dir);
    let mut jobs = vec![];
    for (i, c) in cands.iter().enumerate() {
        let path = format!("{dir}/cand-{round}-{i}.json");
        if std::fs::write(&path, serde_json::to_vec(&json!({"trace": c})).unwrap()).is_err() {
            continue;
        }
        let mut job = base.clone();
        job.idx = i as u64;
        job.replay_file = Some(path);
        job.want_trace = true;
        jobs.push(job);
    }
    let mut best: Option<(usize, RunResult, Violation)> = None;
    let _ = pool.run(jobs, wd, |j, r| {
        if let Some(v) = r.violations.iter().find(|v| v.class == class).cloned() {
            let i = j.idx as usize;
            if best.as_ref().map(|b| i < b.0).unwrap_or(true) {
                best = Some((i, r, v));
            }
        }
    });
    let _ = std::fs::remove_dir_all(&dir);
    best
}

/// Greedy delta-debugging over the engine's shrink candidates: each round asks
/// the engine for reductions of the current trace (most aggressive first), runs
/// them in parallel and adopts the first that keeps the same violation class.
fn minimise(pool: &Pool, job: &Job, res: &RunResult, v: &Violation, budget: usize, wd: u32) -> (Value, Violation, usize, bool) {
    let Some(mut best) = res.trace.clone() else { return (Value::Null, v.clone(), 0, false) };
    let mut best_v = v.clone();
    let mut used = 0usize;
    let mut any = false;
    let mut round = 0usize;
    let mut stage = 0usize;
    while used < budget {
        round += 1;
        let mut cands = crate::engines::shrink_candidates(&job.engine, &best, stage);
        if cands.is_empty() {
            if stage >= crate::engines::SHRINK_STAGES {
                break;
            }
            stage += 1;
            continue;
        }
        cands.truncate(budget - used);
        used += cands.len();
        match try_traces(pool, job, &cands, &v.class, round, wd) {
            Some((_, r, nv)) => {
                best = r.trace.unwrap_or(Value::Null);
                best_v = nv;
                any = true;
                // stay in the same stage: more of the same kind may be possible
            }
            None => stage += 1,
        }
        if stage > crate::engines::SHRINK_STAGES {
            break;
        }
    }
    (best, best_v, used, any)
}

pub fn write_replay(prop: &str, job: &Job, v: &Violation, trace: &Value, minimised: bool, note: &str) -> String {
    let dir = format!("{VERIF}/replays");
    let _ = std::fs::create_dir_all(&dir);
    let path = format!("{dir}/{}-{}-{}.json", prop, v.class.replace(|c: char| !c.is_ascii_alphanumeric() && c != '_', "_"), job.seed);
    let verif_commit = std::process::Command::new("git")
        .args(["-C", VERIF, "rev-parse", "--short", "HEAD"])
        .output()
        .ok()
        .map(|o| String::from_utf8_lossy(&o.stdout).trim().to_string())
        .unwrap_or_default();
    let body = json!({
        "property": prop,
        "verif_commit": verif_commit,
        "replay_mode": if trace.get("decisions").is_some() { "by trace (script + decisions)" } else { "by seed (re-generates the history: tied to this version of the generator and corpus)" },
        "engine": job.engine,
        "tier": job.tier,
        "seed": job.seed,
        "params": job.params,
        "violation": v,
        "minimised": minimised,
        "note": note,
        "trace": trace,
    });
    let _ = std::fs::write(&path, serde_json::to_vec_pretty(&body).unwrap());
    path
}

pub fn run_check(o: &Opts) -> i32 {
    let Some(def) = props::def(&o.prop) else {
        eprintln!("hsim: no check for property {}", o.prop);
        return 2;
    };
    let t0 = Instant::now();
    let pool = match Pool::new(o.workers) {
        Ok(p) => p,
        Err(e) => {
            eprintln!("HARNESS-ERROR: cannot create scratch dir: {e}");
            return 2;
        }
    };
    let jobs = make_jobs(o, &pool);
    let njobs = jobs.len();
    let first_seed = jobs.first().map(|j| j.seed).unwrap_or(0);
    let last_seed = jobs.last().map(|j| j.seed).unwrap_or(0);
    println!("SEED {} property={} tier={} runs={} workers={}", o.seed, o.prop, o.tier, njobs, o.workers);
    let mut agg = Agg::default();
    let mut per_batch: BTreeMap<String, u64> = BTreeMap::new();
    let run = pool.run(jobs, def.watchdog_secs, |job, r| {
        *per_batch.entry(job.params["batch"].as_str().unwrap_or("?").to_string()).or_insert(0) += 1;
        agg.add(job, r)
    });
    if let Err(e) = run {
        agg.harness_errors.push(e);
    }
    // ---- crash-point enumeration: every event of every dictionary save of every base history
    let bases = std::mem::take(&mut agg.enum_bases);
    if !bases.is_empty() {
        let dir = format!("{}/enum", pool.scratch);
        let _ = std::fs::create_dir_all(&dir);
        let mut vjobs = vec![];
        let mut next_idx = njobs as u64;
        let mut points = 0u64;
        for (bj, trace) in &bases {
            let vs = crate::lsp::crashenum::variants(trace, bj.seed);
            points += vs.len() as u64;
            for (name, t) in vs {
                let path = format!("{dir}/v-{next_idx}.json");
                if std::fs::write(&path, serde_json::to_vec(&json!({"trace": t})).unwrap()).is_err() {
                    continue;
                }
                let mut j = bj.clone();
                j.idx = next_idx;
                j.replay_file = Some(path);
                j.want_trace = false;
                j.params["batch"] = json!("crash-enum-variants");
                j.params["variant"] = json!(name);
                j.params["enumerate_crash_points"] = json!(false);
                vjobs.push(j);
                next_idx += 1;
            }
        }
        println!("ENUM crash points: {} base histories -> {} crash variants", bases.len(), points);
        agg.counters.insert("crash_points_enumerated".into(), points);
        agg.counters.insert("crash_enum_base_histories".into(), bases.len() as u64);
        let run2 = pool.run(vjobs, def.watchdog_secs, |job, r| {
            *per_batch.entry("crash-enum-variants".to_string()).or_insert(0) += 1;
            agg.add(job, r)
        });
        if let Err(e) = run2 {
            agg.harness_errors.push(e);
        }
        if let Ok(keep) = std::env::var("HSIM_KEEP_ENUM") {
            let _ = std::process::Command::new("cp").arg("-r").arg(&dir).arg(&keep).status();
        }
        let _ = std::fs::remove_dir_all(&dir);
    }
    let sim_wall = t0.elapsed().as_secs_f64();

    // ---- a run that never returns: if the same seed hangs again, the simulated code spins (a
    // liveness violation of the property under check), otherwise it was the machine
    let hung = std::mem::take(&mut agg.hung);
    for hj in hung {
        let mut again = None;
        let _ = pool.run(vec![hj.clone()], def.watchdog_secs, |_, r| again = Some(r));
        if let Some(r) = again {
            if r.counters.get("hang").copied().unwrap_or(0) > 0 {
                let v = Violation {
                    property: o.prop.clone(),
                    oracle: "liveness.returns".into(),
                    class: "hang".into(),
                    detail: format!("the simulated code did not return within {} s of wall-clock time, twice, for seed {} (a run normally takes well under a second): it spins or blocks outside the simulator's seams", def.watchdog_secs, hj.seed),
                    facts: json!({"engine": hj.engine}),
                };
                let mut rr = RunResult::new(&hj);
                rr.violations.push(v.clone());
                rr.trace = Some(json!({"engine": hj.engine, "seed": hj.seed, "params": hj.params, "note": "replay by seed"}));
                agg.violating_runs += 1;
                agg.harness_errors.retain(|e| !e.contains(&format!("seed {}", hj.seed)));
                agg.violations.entry(format!("{}|hang", o.prop)).or_insert((hj.clone(), rr, v));
            }
        }
    }

    // ---- cross-process clause: the same history must give the same results in every hash universe
    let groups = std::mem::take(&mut agg.universe_groups);
    let mut compared = 0u64;
    for (seed, runs) in &groups {
        if runs.len() < 2 {
            continue;
        }
        compared += 1;
        let (u0, d0, j0) = &runs[0];
        for (u, d, _) in &runs[1..] {
            if d != d0 {
                let at = d.iter().zip(d0.iter()).position(|(a, b)| a != b).unwrap_or(d.len().min(d0.len()));
                let v = Violation {
                    property: o.prop.clone(),
                    oracle: format!("{}.same_in_every_process", o.prop),
                    class: "differs_between_processes".into(),
                    detail: format!("history seed {seed}: the results of operation {at} differ between hash universe {u0} and hash universe {u} (same texts, dictionaries, configuration)"),
                    facts: json!({"universes": [u0, u]}),
                };
                let mut r = RunResult::new(j0);
                r.violations.push(v.clone());
                r.trace = Some(json!({"engine": j0.engine, "seed": seed, "params": j0.params, "note": "re-run this seed with params.universe set to the two universes named in the violation"}));
                agg.violating_runs += 1;
                agg.violations.entry(format!("{}|{}", v.property, v.class)).or_insert((j0.clone(), r, v));
                break;
            }
        }
    }
    if compared > 0 {
        agg.counters.insert("histories_compared_across_universes".into(), compared);
    }

    // ---- violations: minimise, replay-check, report
    let known = if std::env::var("HSIM_IGNORE_KNOWN").is_ok() { vec![] } else { load_known() };
    let mut exit = 0;
    let mut reported = vec![];
    let mut known_hits: BTreeSet<String> = BTreeSet::new();
    let vio: Vec<(Job, RunResult, Violation)> = agg.violations.values().cloned().collect();
    for (job, res, v) in &vio {
        if let Some(k) = known_match(&known, v) {
            known_hits.insert(format!("KNOWN-FINDING: property={} {}", k.property, k.what));
            continue;
        }
        let (trace, mv, used, shrunk) = minimise(&pool, job, res, v, o.max_minimise, def.watchdog_secs);
        // a minimised violation that matches a known finding is that finding
        if let Some(k) = known_match(&known, &mv) {
            known_hits.insert(format!("KNOWN-FINDING: property={} {}", k.property, k.what));
            continue;
        }
        let trace = if trace.is_null() { res.trace.clone().unwrap_or(Value::Null) } else { trace };
        let path = write_replay(&o.prop, job, &mv, &trace, shrunk, &format!("minimisation replays used: {used}"));
        println!("VIOLATION property={} replay={}", mv.property, path);
        println!("  oracle={} class={} seed={} run={}", mv.oracle, mv.class, job.seed, job.idx);
        println!("  {}", mv.detail.chars().take(1200).collect::<String>());
        reported.push(json!({"class": mv.class, "oracle": mv.oracle, "seed": job.seed, "replay": path, "detail": mv.detail}));
        exit = 1;
    }
    for k in &known_hits {
        println!("{k}");
    }

    // ---- reach counters
    let mut missing = vec![];
    if o.scale >= 1.0 && o.only_batch.is_none() {
        for c in &def.must_reach {
            if agg.counters.get(*c).copied().unwrap_or(0) == 0 {
                missing.push(c.to_string());
            }
        }
    }
    if !missing.is_empty() && exit == 0 && agg.violating_runs == 0 {
        agg.harness_errors.push(format!("reach counters stuck at zero: {}", missing.join(", ")));
    }
    if !agg.harness_errors.is_empty() {
        for e in &agg.harness_errors {
            eprintln!("HARNESS-ERROR: {e}");
        }
        if exit == 0 {
            exit = 2;
        }
    }

    // ---- determinism log
    if let Some(p) = &o.hash_log {
        let mut s = String::new();
        for (i, h) in &agg.hashes {
            s.push_str(&format!("{i} {h:016x}\n"));
        }
        let _ = std::fs::write(p, s);
    }

    // ---- evidence
    let wall = t0.elapsed().as_secs_f64();
    if o.write_evidence {
        let mut samples = agg.samples.clone();
        if samples.is_empty() {
            samples.push(json!({"note":"no sample recorded"}));
        }
        let ev = json!({
            "property_id": o.prop,
            "tier": o.tier,
            "seed": o.seed,
            "level": def.level,
            "coverage": {
                "evaluations": agg.counters.get("evaluations").copied().unwrap_or(agg.runs).max(agg.runs),
                "distinct_nontrivial": agg.nontrivial_sigs.len(),
                "rule": def.rule,
                "samples": samples,
                "simulated_runs": agg.runs,
                "runs_per_batch": per_batch,
                "run_seeds": {"first": first_seed, "last": last_seed, "count": njobs, "derivation": "run_seed(VERIF_SEED ^ fnv1a(property:batch), i)"},
                "runs_per_hour": if sim_wall > 0.0 { (agg.runs as f64 / sim_wall * 3600.0).round() } else { 0.0 },
                "simulated_seconds": (agg.sim_nanos as f64) / 1e9,
                "scheduler_steps": agg.steps,
                "distinct_signatures": agg.sigs.len(),
                "distinct_abstract_states": agg.states.len(),
                "counters_fired": agg.counters,
                "reach_required": def.must_reach,
                "reach_missing": missing,
                "components_real": def.real,
                "components_stub": def.stub,
                "violating_runs": agg.violating_runs,
                "reported": reported,
                "known_findings_hit": known_hits.iter().collect::<Vec<_>>(),
                "harness_errors": agg.harness_errors,
                "workers": o.workers,
            },
            "assumptions": def.assumptions,
            "wall_s": wall,
            "violations": reported.len(),
        });
        let dir = format!("{VERIF}/evidence");
        let _ = std::fs::create_dir_all(&dir);
        let path = format!("{dir}/{}.json", o.prop);
        if let Err(e) = std::fs::write(&path, serde_json::to_vec_pretty(&ev).unwrap()) {
            eprintln!("HARNESS-ERROR: cannot write evidence: {e}");
            if exit == 0 {
                exit = 2;
            }
        }
    }
    println!(
        "DONE property={} tier={} runs={} distinct_nontrivial={} violations={} known={} wall={:.1}s exit={}",
        o.prop,
        o.tier,
        agg.runs,
        agg.nontrivial_sigs.len(),
        reported.len(),
        known_hits.len(),
        wall,
        exit
    );
    exit
}

/// Replay a file written by a check: by trace if the engine supports it, else by seed.
pub fn run_replay(path: &str, workers: usize) -> i32 {
    let Ok(bytes) = std::fs::read(path) else {
        eprintln!("cannot read {path}");
        return 2;
    };
    let Ok(body) = serde_json::from_slice::<Value>(&bytes) else {
        eprintln!("cannot parse {path}");
        return 2;
    };
    let prop = body["property"].as_str().unwrap_or("?").to_string();
    let pool = match Pool::new(workers.min(1).max(1)) {
        Ok(p) => p,
        Err(e) => {
            eprintln!("HARNESS-ERROR: {e}");
            return 2;
        }
    };
    let abs = std::fs::canonicalize(path).map(|p| p.to_string_lossy().to_string()).unwrap_or(path.to_string());
    let job = Job {
        engine: body["engine"].as_str().unwrap_or("").to_string(),
        prop: prop.clone(),
        tier: body["tier"].as_str().unwrap_or("quick").to_string(),
        idx: 0,
        seed: body["seed"].as_u64().unwrap_or(0),
        params: body["params"].clone(),
        replay_file: Some(abs),
        want_trace: true,
        scratch: pool.scratch.clone(),
    };
    let wd = props::def(&prop).map(|d| d.watchdog_secs).unwrap_or(120);
    let mut result = None;
    if let Err(e) = pool.run(vec![job], wd, |_, r| result = Some(r)) {
        eprintln!("HARNESS-ERROR: {e}");
        return 2;
    }
    let Some(r) = result else { return 2 };
    if let Ok(dump) = std::env::var("HSIM_DUMP") {
        // full record of this replay (script, decisions, event log) for diagnosis
        let _ = std::fs::write(&dump, serde_json::to_vec_pretty(&json!({"property": prop, "seed": r.seed, "violation": r.violations.first(), "minimised": false, "trace": r.trace})).unwrap());
    }
    let want_class = body["violation"]["class"].as_str().unwrap_or("");
    match &r.verdict {
        Verdict::Harness(m) => {
            eprintln!("HARNESS-ERROR: {m}");
            2
        }
        _ if r.violations.is_empty() => {
            println!("REPLAY no violation (recorded class: {want_class})");
            0
        }
        _ => {
            for v in &r.violations {
                println!("VIOLATION property={} replay={}", v.property, path);
                println!("  oracle={} class={}{}", v.oracle, v.class, if v.class == want_class { " (same class as recorded)" } else { "" });
                println!("  {}", v.detail.chars().take(2000).collect::<String>());
                println!("  facts={}", v.facts);
            }
            println!("REPLAY log_hash={:016x} steps={}", r.log_hash, r.steps);
            1
        }
    }
}
