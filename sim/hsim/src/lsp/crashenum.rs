//! Crash-point enumeration (C07): from the recorded trace of a crash-free history,
//! build one variant per event of every dictionary save — the process dies right
//! before that event fires — and, for each write, per torn-prefix length.
//! Runs in the orchestrator; the variants are ordinary by-trace replay jobs.

use super::client::{Client, Op, ScriptEntry};
use super::workload;
use super::SimCfg;
use crate::rng::Rng;
use serde_json::{Value, json};

fn is_save_event(label: &str) -> Option<&'static str> {
    let rest = label.strip_prefix("gate:")?;
    let kind = rest.split(':').next()?;
    match kind {
        "mkdir" => Some("mkdir"),
        "create" => Some("create"),
        "write" => Some("write"),
        "flush" => Some("flush"),
        "rename" => Some("rename"),
        "remove" => Some("remove"),
        "sync" => Some("sync"),
        _ => None,
    }
}

/// All crash variants of a base trace.  Each is a complete trace (cfg, script, decisions).
pub fn variants(trace: &Value, seed: u64) -> Vec<(String, Value)> {
    let Ok(cfg) = serde_json::from_value::<SimCfg>(trace["cfg"].clone()) else { return vec![] };
    let Ok(script) = serde_json::from_value::<Vec<ScriptEntry>>(trace["script"].clone()) else { return vec![] };
    let Ok(decisions) = serde_json::from_value::<Vec<String>>(trace["decisions"].clone()) else { return vec![] };
    let mut out = vec![];
    for (k, label) in decisions.iter().enumerate() {
        let Some(kind) = is_save_event(label) else { continue };
        let torns: &[&str] = if kind == "write" { &["0", "1", "half", "allbut1"] } else { &["0"] };
        // entries the client had sent before decision k
        let m = decisions[..k].iter().filter(|d| *d == "send").count();
        if m > script.len() {
            continue;
        }
        // the editor's state at that moment
        let mut rng_work = Rng::derive(seed, "workload");
        let mut client = Client::default();
        client.docs = workload::initial_docs(&cfg.gen_cfg, &mut rng_work);
        client.settings = workload::initial_settings(&cfg.gen_cfg, &mut rng_work);
        let mut max_id = 0i64;
        for e in &script[..m] {
            if let Op::Msg { json, pre, set_settings } = &e.op {
                // file-system side effects are not needed for the model of open documents
                let _ = pre;
                client.on_send(json, set_settings, 0);
                max_id = max_id.max(json["id"].as_i64().unwrap_or(0));
            }
        }
        for torn in torns {
            let mut s: Vec<ScriptEntry> = script[..m].to_vec();
            s.push(ScriptEntry { wait_quiet: false, op: Op::Kill { torn: Some(torn.to_string()) } });
            s.push(ScriptEntry { wait_quiet: false, op: Op::Spawn });
            s.push(ScriptEntry {
                wait_quiet: true,
                op: Op::Msg {
                    json: workload::request(max_id + 1000, "initialize", json!({"processId":null,"rootUri":null,"capabilities":{}})),
                    pre: vec![],
                    set_settings: None,
                },
            });
            s.push(ScriptEntry { wait_quiet: true, op: Op::Msg { json: workload::notif("initialized", json!({})), pre: vec![], set_settings: None } });
            for d in client.docs.iter().filter(|d| d.open) {
                s.push(ScriptEntry {
                    wait_quiet: true,
                    op: Op::Msg {
                        json: workload::notif(
                            "textDocument/didOpen",
                            json!({"textDocument":{"uri":d.uri,"languageId":d.lang,"version":d.version + 1,"text":d.text}}),
                        ),
                        pre: vec![],
                        set_settings: None,
                    },
                });
            }
            let mut d: Vec<String> = decisions[..k].to_vec();
            d.push("send".into()); // the kill
            let t = json!({
                "engine": "lsp-sim",
                "seed": seed,
                "cfg": trace["cfg"],
                "script": s,
                "decisions": d,
                "crash_point": {"before_decision": k, "event": label, "torn": torn},
            });
            out.push((format!("{kind}@{k}/{torn}"), t));
        }
    }
    out
}
