//! Reductions of an lsp-sim trace for minimisation (pure JSON manipulation, runs
//! in the orchestrator).  Every candidate is strictly simpler than its input.

use serde_json::{Value, json};

fn method(e: &Value) -> &str {
    e["op"]["Msg"]["json"]["method"].as_str().unwrap_or("")
}
fn is_msg(e: &Value) -> bool {
    e["op"].get("Msg").is_some()
}
fn is_structural(e: &Value) -> bool {
    !is_msg(e) || matches!(method(e), "initialize" | "initialized" | "shutdown" | "exit")
}

/// Index ranges that can be removed as a unit: single ordinary messages, and whole
/// restart sequences (shutdown? exit? Kill? Spawn initialize initialized), except the first boot.
fn units(script: &[Value]) -> Vec<(usize, usize)> {
    let mut out = vec![];
    let mut i = 0;
    let mut first_boot_seen = false;
    while i < script.len() {
        if !is_structural(&script[i]) {
            out.push((i, i + 1));
            i += 1;
            continue;
        }
        let mut j = i;
        while j < script.len() && is_structural(&script[j]) {
            j += 1;
        }
        if first_boot_seen {
            out.push((i, j));
        }
        first_boot_seen = true;
        i = j;
    }
    out
}

fn strip_log(mut c: Value) -> Value {
    if let Some(o) = c.as_object_mut() {
        o.remove("event_log");
    }
    c
}

fn with_script(t: &Value, script: Vec<Value>) -> Value {
    let mut c = t.clone();
    c["script"] = Value::Array(script);
    strip_log(c)
}

fn shrink_text(text: &str) -> Vec<String> {
    let mut out = vec![];
    let nl = if text.contains("\r\n") { "\r\n" } else { "\n" };
    let sep = format!("{nl}{nl}");
    let paras: Vec<&str> = text.split(&sep).collect();
    if paras.len() > 1 {
        for i in 0..paras.len() {
            let v: Vec<&str> = paras.iter().enumerate().filter(|(j, _)| *j != i).map(|(_, p)| *p).collect();
            out.push(v.join(&sep));
        }
    } else {
        let lines: Vec<&str> = text.split(nl).collect();
        if lines.len() > 1 {
            for i in 0..lines.len() {
                let v: Vec<&str> = lines.iter().enumerate().filter(|(j, _)| *j != i).map(|(_, p)| *p).collect();
                out.push(v.join(nl));
            }
        } else {
            let sents: Vec<&str> = text.split_inclusive(". ").collect();
            if sents.len() > 1 {
                for i in 0..sents.len() {
                    let v: Vec<&str> = sents.iter().enumerate().filter(|(j, _)| *j != i).map(|(_, p)| *p).collect();
                    out.push(v.concat());
                }
            }
        }
    }
    out
}

pub const STAGES: usize = 6;

pub fn candidates(t: &Value, stage: usize) -> Vec<Value> {
    let script: Vec<Value> = t["script"].as_array().cloned().unwrap_or_default();
    let decisions: Vec<Value> = t["decisions"].as_array().cloned().unwrap_or_default();
    let mut out = vec![];
    match stage {
        0 => {
            // cut the tail of the script
            let n = script.len();
            let mut seen = std::collections::BTreeSet::new();
            for keep in [3, n / 4, n / 2, (3 * n) / 4, n.saturating_sub(2), n.saturating_sub(1)] {
                if keep >= 3 && keep < n && seen.insert(keep) {
                    out.push(with_script(t, script[..keep].to_vec()));
                }
            }
        }
        1 => {
            // remove blocks of four units
            let us = units(&script);
            let mut k = us.len();
            while k >= 4 {
                let (a, b) = (us[k - 4].0, us[k - 1].1);
                let mut s = script[..a].to_vec();
                s.extend_from_slice(&script[b..]);
                out.push(with_script(t, s));
                k -= 4;
            }
        }
        2 => {
            // remove single units, last first
            for (a, b) in units(&script).into_iter().rev() {
                let mut s = script[..a].to_vec();
                s.extend_from_slice(&script[b..]);
                out.push(with_script(t, s));
            }
        }
        3 => {
            // forget the recorded schedule (default: first enabled event), entirely or from some point on
            let n = decisions.len();
            let mut seen = std::collections::BTreeSet::new();
            for keep in [0, n / 8, n / 4, n / 2, (3 * n) / 4, (7 * n) / 8] {
                if keep < n && seen.insert(keep) {
                    let mut c = t.clone();
                    c["decisions"] = Value::Array(decisions[..keep].to_vec());
                    out.push(strip_log(c));
                }
            }
        }
        4 => {
            // switch off configuration knobs
            let knobs: [(&str, Value); 7] = [
                ("fs_short_pm", json!(0)),
                ("chunk_max", json!(0)),
                ("stdout_cap", json!(0)),
                ("answers_any_order", json!(false)),
                ("universe", json!(0)),
                ("libc_short_pm", json!(0)),
                ("libc_eintr_pm", json!(0)),
            ];
            let mut all = t.clone();
            let mut changed = false;
            for (k, v) in &knobs {
                if t["cfg"][*k] != *v {
                    all["cfg"][*k] = v.clone();
                    changed = true;
                }
            }
            if changed {
                out.push(strip_log(all));
                for (k, v) in &knobs {
                    if t["cfg"][*k] != *v {
                        let mut c = t.clone();
                        c["cfg"][*k] = v.clone();
                        out.push(strip_log(c));
                    }
                }
            }
        }
        5 => {
            // shorten document texts
            for (i, e) in script.iter().enumerate() {
                let m = method(e);
                let ptr = match m {
                    "textDocument/didOpen" => "/op/Msg/json/params/textDocument/text",
                    "textDocument/didChange" => "/op/Msg/json/params/contentChanges/0/text",
                    _ => continue,
                };
                let Some(text) = e.pointer(ptr).and_then(|v| v.as_str()) else { continue };
                for shorter in shrink_text(text).into_iter().take(4) {
                    let mut s = script.clone();
                    if let Some(slot) = s[i].pointer_mut(ptr) {
                        *slot = Value::String(shorter.clone());
                    }
                    // a didOpen that wrote the same text to disk keeps file and buffer in step
                    if let Some(pre) = s[i].pointer_mut("/op/Msg/pre/0/Write/content") {
                        if pre.as_str() == Some(text) {
                            *pre = Value::String(shorter.clone());
                        }
                    }
                    out.push(with_script(t, s));
                }
            }
            out.truncate(48);
        }
        _ => {}
    }
    out
}
