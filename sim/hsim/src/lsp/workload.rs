//! Workload generation: what the editor does next, given its own state.

use super::client::{Client, Doc, FsAct, Op, ScriptEntry};
use super::reference::Settings;
use crate::corpus;
use crate::orch::WORLD;
use crate::rng::Rng;
use serde_json::{Value, json};
use std::collections::VecDeque;
use tower_lsp::lsp_types::Url;

#[derive(Clone, Debug, serde::Serialize, serde::Deserialize)]
pub struct Weights {
    pub open: usize,
    pub change: usize,
    pub save: usize,
    pub close: usize,
    pub delete: usize,
    pub config: usize,
    pub code_action: usize,
    pub add_user: usize,
    pub add_file: usize,
    pub ignore: usize,
    pub record: usize,
    pub restart: usize,
    pub crash: usize,
}

#[derive(Clone, Debug, serde::Serialize, serde::Deserialize)]
pub struct GenCfg {
    pub n_docs: usize,
    pub langs: Vec<String>,
    pub messages: usize,
    /// per-mille probability that a message is sent back-to-back (without waiting for quiescence)
    pub burst_pm: usize,
    pub weights: Weights,
    /// keystroke bursts: a didChange is followed by up to this many further changes
    pub typing_max: usize,
    pub use_paths: bool,
    pub adversarial_paths: bool,
    pub push_settings_in_notification: bool,
    /// only add words to dictionaries when no other add is in flight (C07's history shape)
    pub serial_adds: bool,
    pub max_restarts: usize,
    pub word_domain_wide: bool,
    /// finish the session with shutdown + exit (so that statistics are saved)
    #[serde(default)]
    pub end_with_shutdown: bool,
    /// choose the dictionary/statistics paths once, in the initial settings (and never change them
    /// unless `use_paths` is set)
    #[serde(default)]
    pub paths_at_start: bool,
    /// the editor does not support workspace/configuration and dynamic registration: it answers
    /// those requests with a MethodNotFound error; settings stay at their defaults all session
    #[serde(default)]
    pub config_errors: bool,
    /// the pre-existing user dictionary is large (tens of kilobytes, many non-ASCII words): its
    /// bytes cross every buffer size a reader or writer might use
    #[serde(default)]
    pub big_dict: bool,
    /// the first document has a URI an editor could legally send but nobody expects: a very long
    /// path with percent-encoded slashes and dot-dot segments (a buffer only, never on disk)
    #[serde(default)]
    pub hostile_uris: bool,
    /// C08: after every text change, request code actions at every position inside every
    /// published diagnostic range (bounded)
    #[serde(default)]
    pub position_probe: bool,
    /// prefer texts with astral/combining characters, CRLF, no trailing newline
    #[serde(default)]
    pub unicode_heavy: bool,
    /// the last document is an `untitled:` buffer
    #[serde(default)]
    pub untitled_docs: bool,
    /// dictionary files exist before the first server start (written by hand or by an earlier version)
    #[serde(default)]
    pub preexisting_dicts: bool,
    /// some documents are large (tens of thousands of characters)
    #[serde(default)]
    pub big_docs: bool,
}

/// Does the editor keep this document in a file (as opposed to an unsaved or virtual buffer)?
fn on_disk_doc(d: &Doc) -> bool {
    d.uri.starts_with("file:") && !d.path.contains("/../")
}

pub fn doc_path(name: &str) -> String {
    format!("{WORLD}/ws/{name}")
}

pub fn uri_of(path: &str) -> String {
    Url::from_file_path(path).map(|u| u.to_string()).unwrap_or_else(|_| format!("file://{path}"))
}

pub fn initial_docs(cfg: &GenCfg, rng: &mut Rng) -> Vec<Doc> {
    let mut docs = vec![];
    for i in 0..cfg.n_docs {
        let lang = cfg.langs[i % cfg.langs.len()].clone();
        let ext = corpus::extension(&lang);
        let ext0 = corpus::extension(&cfg.langs[0]);
        let name = if cfg.adversarial_paths {
            // pairs that a careless mapping from path to per-file dictionary name confuses
            match i {
                0 => format!("x/a%b.{ext0}"),
                1 => format!("x/a/b.{ext0}"),
                _ => format!("100%/d{i} x.{ext}"),
            }
        } else {
            format!("doc{i}.{ext}")
        };
        let path = doc_path(&name);
        let mut uri = uri_of(&path);
        if cfg.untitled_docs && i == cfg.n_docs - 1 && cfg.n_docs > 1 {
            // a buffer that has never been saved (VS Code's scheme for it)
            uri = format!("untitled:Untitled-{i}");
        }
        let _ = rng;
        let (uri, path) = if cfg.hostile_uris && i == 0 {
            let long = "deeply-nested-project-directory-name-".repeat(6);
            (
                format!("file://{WORLD}/ws/{long}/sub%2F..%2F..%2F..%2Fhome%2Fnotes.{ext}"),
                format!("{WORLD}/ws/{long}/sub/../../../home/notes.{ext}"),
            )
        } else {
            (uri, path)
        };
        docs.push(Doc { uri, path, lang, open: false, text: String::new(), version: 0, disk: None, history: vec![], known_to_server: false, last_change_step: 0, dict_tainted: false });
    }
    docs
}

pub struct Generator {
    pub cfg: GenCfg,
    queue: VecDeque<ScriptEntry>,
    pub remaining: usize,
    started: bool,
    restarts: usize,
    pub finished: bool,
    probe_pending: Option<String>,
}

fn msg(wait: bool, json: Value) -> ScriptEntry {
    ScriptEntry { wait_quiet: wait, op: Op::Msg { json, pre: vec![], set_settings: None } }
}

pub fn notif(method: &str, params: Value) -> Value {
    if params.is_null() {
        return json!({"jsonrpc":"2.0","method":method});
    }
    json!({"jsonrpc":"2.0","method":method,"params":params})
}
pub fn request(id: i64, method: &str, params: Value) -> Value {
    if params.is_null() {
        return json!({"jsonrpc":"2.0","id":id,"method":method});
    }
    json!({"jsonrpc":"2.0","id":id,"method":method,"params":params})
}

impl Generator {
    pub fn new(cfg: GenCfg) -> Self {
        let remaining = cfg.messages;
        Generator { cfg, queue: VecDeque::new(), remaining, started: false, restarts: 0, finished: false, probe_pending: None }
    }

    fn boot(&mut self, c: &Client, next_id: &mut i64, reopen: bool) {
        self.queue.push_back(ScriptEntry { wait_quiet: false, op: Op::Spawn });
        let id = *next_id;
        *next_id += 1;
        self.queue.push_back(msg(true, request(id, "initialize", json!({"processId":null,"rootUri":null,"capabilities":{}}))));
        self.queue.push_back(msg(true, notif("initialized", json!({}))));
        if reopen {
            for d in c.docs.iter().filter(|d| d.open) {
                self.queue.push_back(msg(
                    true,
                    notif(
                        "textDocument/didOpen",
                        json!({"textDocument":{"uri":d.uri,"languageId":d.lang,"version":d.version + 1,"text":d.text}}),
                    ),
                ));
            }
        }
    }

    /// The next entry depends on what the server will have published for the last change:
    /// it can only be generated once the server is quiescent.
    pub fn needs_quiet(&self) -> bool {
        self.queue.is_empty() && self.probe_pending.is_some()
    }

    /// Entries that must follow regardless of the message budget (shutdown sequence etc.).
    pub fn has_queued(&self) -> bool {
        !self.queue.is_empty()
    }

    pub fn next(&mut self, c: &Client, rng: &mut Rng) -> Option<ScriptEntry> {
        let mut next_id = c.next_id.max(1) + self.queue.iter().filter(|e| matches!(&e.op, Op::Msg{json,..} if json.get("id").is_some())).count() as i64;
        if !self.started {
            self.started = true;
            self.boot(c, &mut next_id, false);
        }
        if let Some(e) = self.queue.pop_front() {
            return Some(e);
        }
        if let Some(uri) = self.probe_pending.take() {
            // the publish for the changed text has arrived by now (probing runs sequentially)
            if let Some(d) = c.doc(&uri) {
                if d.open {
                    let src: Vec<char> = d.text.chars().collect();
                    let diags = c.last_publish(&uri).map(|p| p.diags.clone()).unwrap_or_default();
                    let mut positions: Vec<(u32, u32)> = vec![];
                    for g in diags.iter().take(8) {
                        let (a, b) = (super::reference::pos_to_index(&src, g.sl, g.sc), super::reference::pos_to_index(&src, g.el, g.ec));
                        if let (Some(a), Some(b)) = (a, b) {
                            let mut idxs: Vec<usize> = (a..b.max(a)).collect();
                            if idxs.len() > 10 {
                                // first, last and a seeded sample of the interior
                                let mut keep = vec![idxs[0], idxs[idxs.len() - 1]];
                                for _ in 0..8 {
                                    keep.push(*rng.pick(&idxs));
                                }
                                keep.sort();
                                keep.dedup();
                                idxs = keep;
                            }
                            for i in idxs {
                                positions.push(super::reference::index_to_pos(&src, i));
                            }
                        }
                    }
                    positions.sort();
                    positions.dedup();
                    for (k, (line, ch)) in positions.into_iter().enumerate() {
                        self.queue.push_back(msg(
                            true,
                            request(
                                next_id + k as i64,
                                "textDocument/codeAction",
                                json!({"textDocument":{"uri":uri},"range":{"start":{"line":line,"character":ch},"end":{"line":line,"character":ch}},"context":{"diagnostics":[]}}),
                            ),
                        ));
                    }
                    if let Some(e) = self.queue.pop_front() {
                        return Some(e);
                    }
                }
            }
        }
        if self.remaining == 0 {
            if self.cfg.end_with_shutdown && !self.finished {
                self.finished = true;
                self.queue.push_back(msg(true, notif("exit", Value::Null)));
                return Some(msg(true, request(next_id, "shutdown", Value::Null)));
            }
            self.finished = true;
            return None;
        }
        self.remaining -= 1;
        let wait = !rng.chance(self.cfg.burst_pm, 1000);
        let w = &self.cfg.weights;
        let open_docs: Vec<&Doc> = c.docs.iter().filter(|d| d.open).collect();
        let closed_docs: Vec<&Doc> = c.docs.iter().filter(|d| !d.open).collect();
        let add_in_flight = c.added.iter().any(|a| !a.acked && c.pending.contains_key(&a.req_id));
        let can_add = !(self.cfg.serial_adds && add_in_flight);
        let spelling_cmds = collect_commands(c, "HarperAddToUserDict");
        let ignore_cmds = collect_commands(c, "HarperIgnoreLint");
        let record_cmds = collect_record_commands(c);
        let ws = [
            if closed_docs.is_empty() { 0 } else { w.open },
            if open_docs.is_empty() { 0 } else { w.change },
            if open_docs.iter().any(|d| on_disk_doc(d)) { w.save } else { 0 },
            if open_docs.is_empty() { 0 } else { w.close },
            if c.docs.iter().any(|d| d.disk.is_some()) { w.delete } else { 0 },
            w.config,
            if open_docs.is_empty() { 0 } else { w.code_action },
            if open_docs.is_empty() || !can_add { 0 } else { w.add_user },
            if open_docs.is_empty() || !can_add { 0 } else { w.add_file },
            if ignore_cmds.is_empty() { 0 } else { w.ignore },
            if record_cmds.is_empty() { 0 } else { w.record },
            if self.restarts < self.cfg.max_restarts { w.restart } else { 0 },
            if self.restarts < self.cfg.max_restarts { w.crash } else { 0 },
        ];
        if ws.iter().sum::<usize>() == 0 {
            // nothing feasible but opening
            self.finished = true;
            return None;
        }
        let choice = rng.weighted(&ws);
        let entry = match choice {
            0 => {
                let d = *rng.pick(&closed_docs);
                // now and then the editor assigns another language to the same file (an
                // unsupported id before a supported one, Markdown as plain text, ...)
                let lang = if rng.chance(1, 8) {
                    rng.pick(&["plaintext", "markdown", "xml", "latex", "html", "rust", "python"]).to_string()
                } else {
                    d.lang.clone()
                };
                let (text, pre) = match (&d.disk, rng.chance(1, 2)) {
                    (Some(t), true) => (t.clone(), vec![]),
                    _ => {
                        let t = corpus::wrap(&lang, &corpus::paragraphs(rng), rng);
                        let pre = if rng.chance(7, 10) && on_disk_doc(d) { vec![FsAct::Write { path: d.path.clone(), content: t.clone() }] } else { vec![] };
                        (t, pre)
                    }
                };
                ScriptEntry {
                    wait_quiet: wait,
                    op: Op::Msg {
                        json: notif(
                            "textDocument/didOpen",
                            json!({"textDocument":{"uri":d.uri,"languageId":lang,"version":d.version + 1,"text":text}}),
                        ),
                        pre,
                        set_settings: None,
                    },
                }
            }
            1 => {
                let d = *rng.pick(&open_docs);
                let mut text = corpus::edit(&d.text, &d.lang, rng);
                let mut version = d.version + 1;
                let first = change_msg(&d.uri, version, &text, rng);
                let extra = if self.cfg.typing_max > 0 { rng.below(self.cfg.typing_max + 1) } else { 0 };
                for _ in 0..extra {
                    text = corpus::edit(&text, &d.lang, rng);
                    version += 1;
                    self.queue.push_back(msg(!rng.chance(self.cfg.burst_pm.max(700), 1000), change_msg(&d.uri, version, &text, rng)));
                }
                msg(wait, first)
            }
            2 => {
                let savable: Vec<&Doc> = open_docs.iter().copied().filter(|d| on_disk_doc(d)).collect();
                let d = *rng.pick(&savable);
                ScriptEntry {
                    wait_quiet: wait,
                    op: Op::Msg {
                        json: notif("textDocument/didSave", json!({"textDocument":{"uri":d.uri}})),
                        pre: vec![FsAct::Write { path: d.path.clone(), content: d.text.clone() }],
                        set_settings: None,
                    },
                }
            }
            3 => {
                let d = *rng.pick(&open_docs);
                msg(wait, notif("textDocument/didClose", json!({"textDocument":{"uri":d.uri}})))
            }
            4 => {
                let cands: Vec<&Doc> = c.docs.iter().filter(|d| d.disk.is_some()).collect();
                let d = *rng.pick(&cands);
                if rng.chance(1, 3) && !open_docs.is_empty() {
                    // a file watcher also reports files (or their directory) as created or changed,
                    // e.g. after a save: that is no reason to forget an open document
                    let o = *rng.pick(&open_docs);
                    let uri = if rng.chance(1, 4) { o.uri.rsplit_once('/').map(|x| x.0.to_string()).unwrap_or_else(|| o.uri.clone()) } else { o.uri.clone() };
                    let typ = *rng.pick(&[1, 2]);
                    return Some(msg(wait, notif("workspace/didChangeWatchedFiles", json!({"changes":[{"uri":uri,"type":typ}]}))));
                }
                if rng.chance(1, 4) {
                    // the whole directory goes: every document below it is affected
                    let dir_uri = d.uri.rsplit_once('/').map(|x| x.0.to_string()).unwrap_or_else(|| d.uri.clone());
                    let pre: Vec<FsAct> = c.docs.iter().filter(|x| x.uri.starts_with(&dir_uri) && x.disk.is_some()).map(|x| FsAct::Delete { path: x.path.clone() }).collect();
                    ScriptEntry {
                        wait_quiet: wait,
                        op: Op::Msg { json: notif("workspace/didChangeWatchedFiles", json!({"changes":[{"uri":dir_uri,"type":3}]})), pre, set_settings: None },
                    }
                } else {
                    ScriptEntry {
                        wait_quiet: wait,
                        op: Op::Msg {
                            json: notif("workspace/didChangeWatchedFiles", json!({"changes":[{"uri":d.uri,"type":1},{"uri":d.uri,"type":3}]})),
                            pre: vec![FsAct::Delete { path: d.path.clone() }],
                            set_settings: None,
                        },
                    }
                }
            }
            5 if rng.chance(1, 8) => {
                // a settings object the server must reject as a whole: it keeps what it has
                let mut j = c.settings.to_json();
                let bad: Value = match rng.below(6) {
                    0 => {
                        j["harper-ls"]["diagnosticSeverity"] = json!("loud");
                        j
                    }
                    1 => {
                        j["harper-ls"]["dialect"] = json!(7);
                        j
                    }
                    2 => {
                        j["harper-ls"]["linters"] = json!("all");
                        j
                    }
                    3 => {
                        j["harper-ls"]["isolateEnglish"] = json!("yes");
                        j
                    }
                    4 => {
                        j["harper-ls"]["userDictPath"] = json!(5);
                        j
                    }
                    _ => json!("not an object"),
                };
                ScriptEntry { wait_quiet: wait, op: Op::Msg { json: notif("workspace/didChangeConfiguration", json!({"settings":bad})), pre: vec![], set_settings: None } }
            }
            5 => {
                let s = mutate_settings(&c.settings, &self.cfg, rng);
                let payload = if self.cfg.push_settings_in_notification || rng.chance(1, 2) { s.to_json() } else { Value::Null };
                ScriptEntry {
                    wait_quiet: wait,
                    op: Op::Msg { json: notif("workspace/didChangeConfiguration", json!({"settings":payload})), pre: vec![], set_settings: Some(s) },
                }
            }
            6 => {
                let d = *rng.pick(&open_docs);
                let (line, ch) = pick_position(c, d, rng);
                let id = next_id;
                msg(
                    wait,
                    request(
                        id,
                        "textDocument/codeAction",
                        json!({"textDocument":{"uri":d.uri},"range":{"start":{"line":line,"character":ch},"end":{"line":line,"character":ch}},"context":{"diagnostics":[]}}),
                    ),
                )
            }
            7 | 8 if self.cfg.burst_pm == 0 && !add_in_flight && rng.chance(1, 8) => {
                // the user adds a word to the user dictionary with a text editor; the next update of
                // a document must see it
                let d = *rng.pick(&open_docs);
                let word = gen_word(rng, self.cfg.word_domain_wide);
                let path = super::oracle::user_dict_path(&c.settings);
                ScriptEntry {
                    wait_quiet: true,
                    op: Op::Msg { json: change_msg(&d.uri, d.version + 1, &d.text, rng), pre: vec![FsAct::AppendWord { path, word }], set_settings: None },
                }
            }
            7 | 8 => {
                let file = ws[8] > 0 && rng.weighted(&ws[7..9]) == 1;
                let mut cmd = if file { "HarperAddToFileDict" } else { "HarperAddToUserDict" };
                // a server-provided command, or a generated word on an open document
                let args = if !spelling_cmds.is_empty() && rng.chance(2, 3) {
                    rng.pick(&spelling_cmds).clone()
                } else {
                    let d = *rng.pick(&open_docs);
                    let word = gen_word(rng, self.cfg.word_domain_wide);
                    vec![json!(word), json!(d.uri)]
                };
                if args.get(1).and_then(|a| a.as_str()).map(|u| !u.starts_with("file:")).unwrap_or(false) {
                    // a buffer that was never saved has no file dictionary
                    cmd = "HarperAddToUserDict";
                }
                msg(wait, request(next_id, "workspace/executeCommand", json!({"command":cmd,"arguments":args})))
            }
            9 => {
                let args = rng.pick(&ignore_cmds).clone();
                msg(wait, request(next_id, "workspace/executeCommand", json!({"command":"HarperIgnoreLint","arguments":args})))
            }
            10 => {
                let args = rng.pick(&record_cmds).clone();
                msg(wait, request(next_id, "workspace/executeCommand", json!({"command":"HarperRecordLint","arguments":args})))
            }
            11 => {
                self.restarts += 1;
                let id = next_id;
                next_id += 1;
                self.queue.push_back(msg(true, notif("exit", Value::Null)));
                self.boot(c, &mut next_id, true);
                msg(true, request(id, "shutdown", Value::Null))
            }
            _ => {
                self.restarts += 1;
                self.boot(c, &mut next_id, true);
                ScriptEntry { wait_quiet: false, op: Op::Kill { torn: None } }
            }
        };
        if self.cfg.position_probe && (choice == 0 || choice == 1) {
            if let Op::Msg { json, .. } = &entry.op {
                self.probe_pending = json["params"]["textDocument"]["uri"].as_str().map(|s| s.to_string());
            }
        }
        Some(entry)
    }
}

fn change_msg(uri: &str, version: i64, text: &str, rng: &mut Rng) -> Value {
    // FULL sync: one change with the whole text; occasionally two changes in one
    // notification (the server must take the last)
    let changes = if rng.chance(1, 10) { json!([{"text": "superseded teh text"}, {"text": text}]) } else { json!([{"text": text}]) };
    notif("textDocument/didChange", json!({"textDocument":{"uri":uri,"version":version},"contentChanges":changes}))
}

/// Arguments of every command named `name` the server has offered in code-action
/// responses (of the current server lifetime) for documents that are still open.
fn collect_commands(c: &Client, name: &str) -> Vec<Vec<Value>> {
    let mut out = vec![];
    for r in c.responses.iter().rev().take(6) {
        if r.method != "textDocument/codeAction" {
            continue;
        }
        let uri = r.params["textDocument"]["uri"].as_str().unwrap_or("");
        if !c.doc(uri).map(|d| d.open).unwrap_or(false) {
            continue;
        }
        // a lint payload is only meaningful for the text it was computed on
        if name == "HarperIgnoreLint" && c.doc(uri).map(|d| d.last_change_step >= r.req_step).unwrap_or(true) {
            continue;
        }
        if let Some(arr) = r.result.as_array() {
            for a in arr {
                if a["command"].as_str() == Some(name) {
                    if let Some(args) = a["arguments"].as_array() {
                        out.push(args.clone());
                    }
                }
            }
        }
    }
    out
}

fn collect_record_commands(c: &Client) -> Vec<Vec<Value>> {
    let mut out = vec![];
    for r in c.responses.iter().rev().take(6) {
        if r.method != "textDocument/codeAction" {
            continue;
        }
        if let Some(arr) = r.result.as_array() {
            for a in arr {
                if a["command"]["command"].as_str() == Some("HarperRecordLint") {
                    if let Some(args) = a["command"]["arguments"].as_array() {
                        out.push(args.clone());
                    }
                }
            }
        }
    }
    out
}

fn pick_position(c: &Client, d: &Doc, rng: &mut Rng) -> (u32, u32) {
    // now and then the cursor rests on a link, an address or a host name in the text
    if rng.chance(1, 6) {
        let src: Vec<char> = d.text.chars().collect();
        let s: String = d.text.clone();
        let hits: Vec<usize> = ["http", "www.", "@"].iter().flat_map(|n| s.match_indices(n).map(|(i, _)| s[..i].chars().count()).collect::<Vec<_>>()).collect();
        if !hits.is_empty() {
            let i = *rng.pick(&hits) + rng.below(3);
            return super::reference::index_to_pos(&src, i.min(src.len()));
        }
    }
    if let Some(p) = c.last_publish(&d.uri) {
        if !p.diags.is_empty() && rng.chance(9, 10) {
            let g = rng.pick(&p.diags);
            if g.sl == g.el && g.ec > g.sc && rng.chance(1, 2) {
                return (g.sl, g.sc + rng.below((g.ec - g.sc) as usize) as u32);
            }
            return (g.sl, g.sc);
        }
    }
    let lines = d.text.matches('\n').count() as u32;
    (rng.below(lines as usize + 1) as u32, rng.below(12) as u32)
}

pub fn gen_word(rng: &mut Rng, wide: bool) -> String {
    if !wide || rng.chance(2, 3) {
        return rng.pick(corpus::WORDS).to_string();
    }
    if rng.chance(1, 5) {
        // reduplication: a short syllable said twice or three times
        let syl: String = (0..rng.range(1, 3)).map(|_| (b'a' + rng.below(26) as u8) as char).collect();
        return syl.repeat(rng.range(2, 3));
    }
    let n = rng.range(1, 12);
    let mut s = String::new();
    for _ in 0..n {
        let c = match rng.below(10) {
            0 => char::from_u32(0xC0 + rng.below(0x3F) as u32).unwrap_or('é'),
            1 => char::from_u32(0x400 + rng.below(0x50) as u32).unwrap_or('я'),
            2 => '\'',
            3 => '’',
            4 => '-',
            5 => char::from_u32(0x1F600 + rng.below(0x30) as u32).unwrap_or('😀'),
            6 => (b'A' + rng.below(26) as u8) as char,
            7 => (b'0' + rng.below(10) as u8) as char,
            _ => (b'a' + rng.below(26) as u8) as char,
        };
        s.push(c);
    }
    s
}

fn mutate_settings(cur: &Settings, cfg: &GenCfg, rng: &mut Rng) -> Settings {
    let mut s = cur.clone();
    match rng.below(if cfg.use_paths { 8 } else { 6 }) {
        0 | 1 => {
            let rule = *rng.pick(&["SpellCheck", "AnA", "RepeatedWords", "SentenceCapitalization", "Spaces", "CorrectNumberSuffix", "ThenThan", "SpelledNumbers", "NoSuchRule"]);
            let v = match rng.below(3) {
                0 => Some(true),
                1 => Some(false),
                _ => None,
            };
            if rng.chance(1, 5) {
                s.linters.remove(rule);
            } else {
                s.linters.insert(rule.to_string(), v);
            }
        }
        2 => s.dialect = rng.pick(&[None, Some("American"), Some("British"), Some("Canadian"), Some("Australian")]).map(|x| x.to_string()),
        3 => s.severity = rng.pick(&[None, Some("error"), Some("warning"), Some("information"), Some("hint")]).map(|x| x.to_string()),
        4 => s.isolate_english = *rng.pick(&[None, Some(true), Some(false)]),
        5 => {
            s.ignore_link_title = *rng.pick(&[None, Some(true), Some(false)]);
            s.force_stable = *rng.pick(&[None, Some(true), Some(false)]);
        }
        6 => {
            s.user_dict_path = rng.pick(&[None, Some(format!("{WORLD}/cfg/user-dict.txt")), Some(format!("{WORLD}/cfg2/deep/dir/words.txt"))]).clone();
        }
        _ => {
            s.file_dict_path = rng.pick(&[None, Some(format!("{WORLD}/cfg/filedicts")), Some(format!("{WORLD}/cfg2/fd/"))]).clone();
            s.stats_path = rng.pick(&[None, Some(format!("{WORLD}/cfg/stats.txt"))]).clone();
        }
    }
    s
}

pub fn initial_settings(cfg: &GenCfg, rng: &mut Rng) -> Settings {
    let mut s = Settings::default();
    if cfg.config_errors {
        return s;
    }
    if cfg.paths_at_start {
        s.user_dict_path = rng.pick(&[None, None, Some(format!("{WORLD}/cfg/user-dict.txt")), Some(format!("{WORLD}/cfg2/deep/dir/words.txt"))]).clone();
        s.file_dict_path = rng.pick(&[None, None, Some(format!("{WORLD}/cfg/filedicts")), Some(format!("{WORLD}/cfg2/fd/"))]).clone();
        s.stats_path = rng.pick(&[None, Some(format!("{WORLD}/cfg/stats.txt"))]).clone();
    }
    if rng.chance(1, 2) {
        for _ in 0..rng.range(0, 3) {
            s = mutate_settings(&s, cfg, rng);
        }
    }
    s
}
