//! `lsp-sim`: the real harper-ls `Backend` under the real tower-lsp
//! `Server::serve`, polled by a simulator-owned executor.  The simulator decides
//! every interleaving (delivery of client bytes, answers to server requests,
//! completion of file operations, draining of the server's output), injects
//! crashes and restarts, and checks the client model's truth against what the
//! server said.

pub mod client;
pub mod oracle;
pub mod reference;
pub mod shrink;
pub mod crashenum;
pub mod workload;

use crate::backend::Backend;
use crate::config::Config;
use crate::exec::{PollOutcome, Root};
use crate::job::{Job, RunResult, Violation};
use crate::orch::WORLD;
use crate::pipes::Pipe;
use crate::rng::{Rng, fnv1a};
use crate::seam;
use client::{Client, Op, ScriptEntry, frame};
use serde_json::{Value, json};
use std::collections::{BTreeMap, VecDeque};
use tokio::sim as fsim;
use tower_lsp::{LspService, Server};
use workload::{GenCfg, Generator, Weights};

#[derive(Clone, Debug, PartialEq, serde::Serialize, serde::Deserialize)]
pub enum Policy {
    /// the client waits for quiescence before every message; first enabled event fires
    Sequential,
    /// uniform over enabled events (with per-run kind weights)
    Random,
    /// discrete-event: every event gets a due time from a per-run latency profile
    Latency,
    /// PCT-style: event sources have priorities, changed at a few seeded points
    Pct,
}

#[derive(Clone, Debug, serde::Serialize, serde::Deserialize)]
pub struct SimCfg {
    pub policy: Policy,
    pub gen_cfg: GenCfg,
    /// split client frames into chunks of at most this many bytes (0 = whole wire)
    pub chunk_max: usize,
    /// capacity of the server's stdout pipe (0 = unbounded)
    pub stdout_cap: usize,
    /// answer server requests in arbitrary order
    pub answers_any_order: bool,
    /// short reads/writes in the shimmed tokio::fs (per-mille)
    pub fs_short_pm: usize,
    /// libc-level short writes / EINTR on files opened by the server with std::fs (per-mille)
    pub libc_short_pm: usize,
    pub libc_eintr_pm: usize,
    /// hash universe: how many hashers to burn before the run
    pub universe: u64,
    pub max_steps: u64,
    /// kind weights for the Random policy: send, deliver, answer, gate, drain
    pub kind_weights: [usize; 5],
    /// latency profile for the Latency policy (nanoseconds, per kind)
    pub latency: [u64; 5],
    pub check_intermediate: bool,
    /// disk errors: per-mille of the dictionary file operations of an add-word command that fail
    /// with EIO / ENOSPC / EMFILE / EACCES instead of being carried out (sequential sessions only)
    #[serde(default)]
    pub fs_error_pm: usize,
}

#[derive(Clone, Debug, PartialEq)]
pub enum Ev {
    Send,
    Deliver,
    Answer(usize),
    Gate(u64),
    /// the operation behind the gate fails with this errno
    GateFail(u64, i32),
    Drain,
}

struct Proc {
    root: Root<'static>,
    stdin: Pipe,
    stdout: Pipe,
}

pub struct Sim<'j> {
    pub job: &'j Job,
    pub cfg: SimCfg,
    pub client: Client,
    proc_: Option<Proc>,
    wire: VecDeque<u8>,
    generator: Option<Generator>,
    replay_script: Option<VecDeque<ScriptEntry>>,
    replay_decisions: Option<VecDeque<String>>,
    pub diverged: u64,
    peeked: Option<ScriptEntry>,
    pub script: Vec<ScriptEntry>,
    pub decisions: Vec<String>,
    rng_sched: Rng,
    rng_work: Rng,
    rng_fault: Rng,
    rng_sizes: Rng,
    rng_time: Rng,
    pub step: u64,
    pub res: RunResult,
    log: u64,
    sig: u64,
    due: BTreeMap<String, i64>,
    pct_prio: BTreeMap<String, u64>,
    pct_changes: Vec<u64>,
    pub max_outstanding_cfg: usize,
    pub max_pending_gates: usize,
    pub oracle_state: oracle::OracleState,
    pub server_dead_reason: Option<String>,
    pub event_log: Vec<String>,
    abstract_states: std::collections::HashSet<u64>,
    /// client messages sent since the server was last quiescent
    pub burst_len: u64,
    pub max_burst_len: u64,
    keep_log: bool,
    quiescent_points: u64,
    /// gate id -> the fate decided for it when it was first seen (None: proceeds)
    doom: BTreeMap<u64, Option<i32>>,
}

fn spawn_proc(stdout_cap: usize) -> Proc {
    let (service, socket) = LspService::new(|client| Backend::new(client, Config::default()));
    let stdin = Pipe::new(0);
    let stdout = Pipe::new(stdout_cap);
    let server = Server::new(stdin.clone(), stdout.clone(), socket).concurrency_level(crate::LS_CONCURRENCY_LEVEL);
    let fut: std::pin::Pin<Box<dyn std::future::Future<Output = ()>>> = Box::pin(server.serve(service));
    Proc { root: Root::new(fut), stdin, stdout }
}

pub fn derive_cfg(job: &Job) -> SimCfg {
    let mut r = Rng::derive(job.seed, "config");
    let mode = job.params.get("mode").and_then(|v| v.as_str()).unwrap_or("concurrent");
    let q = job.tier == "quick";
    let prose = crate::corpus::PROSE_LANGS;
    let code = crate::corpus::CODE_LANGS;
    let n_docs = r.range(1, 3);
    let mut langs = vec![];
    for _ in 0..n_docs {
        let l = match r.below(10) {
            0..=4 => *r.pick(prose),
            5..=8 => *r.pick(code),
            _ => *r.pick(crate::corpus::UNSUPPORTED_LANGS),
        };
        langs.push(l.to_string());
    }
    let mut weights = Weights {
        open: 6,
        change: 30,
        save: 6,
        close: 4,
        delete: 1,
        config: 6,
        code_action: 8,
        add_user: 4,
        add_file: 3,
        ignore: 3,
        record: 2,
        restart: 1,
        crash: 0,
    };
    // swarm: knock out a random subset of operation kinds
    for w in [&mut weights.save, &mut weights.close, &mut weights.delete, &mut weights.config, &mut weights.code_action, &mut weights.add_user, &mut weights.add_file, &mut weights.ignore, &mut weights.record, &mut weights.restart] {
        if r.chance(1, 4) {
            *w = 0;
        }
    }
    let policy = match mode {
        "sequential" => Policy::Sequential,
        _ => match r.below(10) {
            0..=4 => Policy::Random,
            5..=7 => Policy::Latency,
            _ => Policy::Pct,
        },
    };
    let sequential = policy == Policy::Sequential;
    let mut gen_cfg = GenCfg {
        n_docs,
        langs,
        messages: if q { r.range(6, 24) } else { r.range(6, 40) },
        burst_pm: if sequential { 0 } else { *r.pick(&[300, 600, 850, 1000]) },
        weights,
        typing_max: if sequential { 0 } else { *r.pick(&[0, 2, 4]) },
        use_paths: r.chance(1, 2),
        adversarial_paths: r.chance(1, 6),
        push_settings_in_notification: r.chance(1, 2),
        serial_adds: true,
        max_restarts: 3,
        word_domain_wide: r.chance(1, 3),
        end_with_shutdown: false,
        paths_at_start: false,
        position_probe: false,
        unicode_heavy: false,
        untitled_docs: r.chance(1, 8),
        preexisting_dicts: r.chance(1, 3),
        big_docs: r.chance(1, 10),
        config_errors: false,
        big_dict: Rng::derive(job.seed, "bigdict-cfg").chance(1, 3),
        hostile_uris: job.prop == "C10" && Rng::derive(job.seed, "hostile-uris").chance(1, 6),
    };
    if job.prop == "C09" && r.chance(1, 8) {
        // an editor without workspace/configuration support: every pull is answered with an error
        gen_cfg.config_errors = true;
        gen_cfg.weights.config = 0;
        gen_cfg.use_paths = false;
    }
    gen_cfg.end_with_shutdown = {
        let f = job.params.get("focus").and_then(|v| v.as_str()).unwrap_or(mode);
        f == "stats" || (f == "paths" && r.chance(1, 2))
    };
    let focus = job.params.get("focus").and_then(|v| v.as_str()).unwrap_or(mode);
    if !matches!(job.prop.as_str(), "C07" | "C09" | "C10") {
        // colliding file-dictionary names are a recorded finding of C07/C09; keep them out of
        // the sessions of the other properties
        gen_cfg.adversarial_paths = false;
    }
    if job.prop == "C07" {
        // paths are chosen at session start; they are changed during the session only under the
        // sequential policy, where "the dictionary a command was aimed at" is unambiguous (in a
        // concurrent schedule a configuration answered late may legitimately redirect a command)
        gen_cfg.use_paths = sequential && r.chance(1, 2);
        gen_cfg.paths_at_start = true;
    }
    match focus {
        "crash" => {
            gen_cfg.weights.crash = 4;
            gen_cfg.weights.add_user = 14;
            gen_cfg.weights.add_file = 10;
            gen_cfg.weights.restart = 3;
            gen_cfg.weights.code_action = 8;
        }
        "dict" => {
            gen_cfg.weights.add_user = 14;
            gen_cfg.weights.add_file = 10;
            gen_cfg.weights.restart = 3;
            gen_cfg.weights.code_action = 8;
        }
        "ignore" => {
            gen_cfg.weights.ignore = 16;
            gen_cfg.weights.code_action = 20;
            gen_cfg.weights.change = 24;
            gen_cfg.weights.add_user = 5;
            gen_cfg.weights.add_file = 5;
            gen_cfg.weights.config = 3;
            gen_cfg.weights.close = 1;
            gen_cfg.weights.restart = 0;
            gen_cfg.weights.delete = 0;
            gen_cfg.messages = r.range(12, 30);
        }
        "position" => {
            gen_cfg.position_probe = true;
            gen_cfg.unicode_heavy = true;
            gen_cfg.messages = r.range(4, 10);
            gen_cfg.weights = Weights { open: 6, change: 20, save: 1, close: 2, delete: 0, config: 2, code_action: 0, add_user: 0, add_file: 0, ignore: 0, record: 0, restart: 0, crash: 0 };
        }
        "paths" => {
            gen_cfg.use_paths = true;
            gen_cfg.weights.config = 10;
            gen_cfg.weights.add_user = 8;
            gen_cfg.weights.add_file = 8;
            gen_cfg.weights.record = 6;
            gen_cfg.weights.code_action = 8;
            gen_cfg.weights.restart = 3;
        }
        "stats" => {
            gen_cfg.use_paths = true;
            gen_cfg.weights.record = 14;
            gen_cfg.weights.code_action = 14;
            gen_cfg.weights.restart = 6;
        }
        _ => {}
    }
    // with documents of tens of thousands of characters, byte-sized chunks and a 64-byte output
    // pipe would eat the step budget without exploring anything new
    let big = gen_cfg.big_docs;
    let chunk_max = if sequential { 0 } else { *r.pick(&[0, 0, 1, 7, 40, 300]) };
    let stdout_cap = if sequential { 0 } else { *r.pick(&[0, 0, 64, 1024]) };
    SimCfg {
        policy,
        gen_cfg,
        chunk_max: if big && chunk_max > 0 { chunk_max.max(2000) } else { chunk_max },
        stdout_cap: if big && stdout_cap > 0 { stdout_cap.max(16 * 1024) } else { stdout_cap },
        answers_any_order: !sequential && r.chance(1, 4),
        fs_short_pm: if sequential { 0 } else { *r.pick(&[0, 0, 300, 1000]) },
        libc_short_pm: if mode == "stats" { *r.pick(&[0, 300, 900]) } else { 0 },
        libc_eintr_pm: if mode == "stats" { *r.pick(&[0, 100, 400]) } else { 0 },
        universe: r.below(64) as u64,
        max_steps: 60_000,
        kind_weights: [r.range(1, 6), r.range(1, 6), r.range(1, 6), r.range(1, 6), r.range(1, 6)],
        latency: [
            *r.pick(&[1_000, 100_000, 5_000_000]),
            *r.pick(&[1_000, 50_000]),
            *r.pick(&[10_000, 1_000_000, 20_000_000]),
            *r.pick(&[5_000, 500_000, 10_000_000]),
            *r.pick(&[1_000, 200_000]),
        ],
        check_intermediate: true,
        fs_error_pm: if sequential && mode_disk_errors(job) { *r.pick(&[60, 150, 300]) } else { 0 },
    }
}

fn mode_disk_errors(job: &Job) -> bool {
    job.params.get("disk_errors").and_then(|v| v.as_bool()).unwrap_or(false)
}

impl<'j> Sim<'j> {
    pub fn new(job: &'j Job, cfg: SimCfg) -> Self {
        let mut rng_work = Rng::derive(job.seed, "workload");
        let mut client = Client::default();
        client.docs = workload::initial_docs(&cfg.gen_cfg, &mut rng_work);
        client.settings = workload::initial_settings(&cfg.gen_cfg, &mut rng_work);
        client.config_errors = cfg.gen_cfg.config_errors;
        client.next_id = 1;
        let mut preexisting: Vec<(String, Vec<String>)> = vec![];
        if cfg.gen_cfg.preexisting_dicts && cfg.gen_cfg.paths_at_start {
            // a user dictionary that exists before the server ever ran: hand-edited, CRLF line
            // ends, with or without a final newline
            let mut words: Vec<String> = (0..rng_work.range(1, 3)).map(|_| rng_work.pick(&["kubectl", "harperls", "zxqv", "Ωmega", "naïvité"]).to_string()).collect();
            if cfg.gen_cfg.big_dict {
                // filler words nobody types: long, distinct, a third of them with multi-byte letters
                let mut br = Rng::derive(job.seed, "bigdict");
                let n = br.range(800, 4000);
                for i in 0..n {
                    let mut w = String::from(*br.pick(&["zqx", "xkq", "vvz", "qxj"]));
                    let mut v = i as u64 * 7919 + 13;
                    for _ in 0..br.range(5, 9) {
                        w.push((b'a' + (v % 26) as u8) as char);
                        v /= 3;
                        v += 11;
                    }
                    w.push_str(*br.pick(&["", "", "é", "ß", "日本", "ñx", "𝒜", "ö"]));
                    if !words.contains(&w) {
                        words.push(w);
                    }
                }
            }
            let nl = if rng_work.chance(1, 3) { "\r\n" } else { "\n" };
            let mut content = words.join(nl);
            if rng_work.chance(2, 3) {
                content.push_str(nl);
            }
            let path = oracle::user_dict_path(&client.settings);
            // the dictionary may be a symbolic link into the user's dotfiles
            let via_link = Rng::derive(job.seed, "symlink-dict").chance(1, 4);
            seam::as_harness(|| {
                if let Some(parent) = std::path::Path::new(&path).parent() {
                    let _ = std::fs::create_dir_all(parent);
                }
                if via_link {
                    let _ = std::fs::create_dir_all("w/home/dotfiles");
                    let _ = std::fs::write("w/home/dotfiles/harper-words.txt", content.as_bytes());
                    let _ = std::os::unix::fs::symlink(format!("{WORLD}/home/dotfiles/harper-words.txt"), &path);
                } else {
                    let _ = std::fs::write(&path, content.as_bytes());
                }
            });
            preexisting.push((path, words));
        }
        // other programs' files, and dictionaries at the default locations from an earlier life of
        // the user: none of the server's business unless the settings say so
        let mut foreign: Vec<(String, Vec<u8>)> = vec![];
        if job.prop == "C10" {
            let mut fr = Rng::derive(job.seed, "foreign-files");
            if fr.chance(2, 3) {
                let d = reference::Settings::default();
                let cands: Vec<(String, &str)> = vec![
                    (oracle::user_dict_path(&d), "kubectl\nharperls\n"),
                    (format!("{}/{}", oracle::file_dict_dir(&d), "proc%self%cwd%w%ws%old.md%"), "zxqv\n"),
                    (format!("{WORLD}/tmp/other-app.tmp"), "scratch data of another program\n"),
                    (format!("{WORLD}/run/other-app.lock"), ""),
                    (format!("{WORLD}/home/notes.txt"), "teh user's own notes\n"),
                    (format!("{WORLD}/home/.cache/other/cache.bin"), "\u{0}\u{1}\u{2}"),
                ];
                for (p, c) in cands {
                    if fr.chance(1, 2) {
                        foreign.push((p, c.as_bytes().to_vec()));
                    }
                }
                seam::as_harness(|| {
                    for (p, c) in &foreign {
                        let rel = format!("w/{}", p.strip_prefix(&format!("{WORLD}/")).unwrap_or(p));
                        if let Some(parent) = std::path::Path::new(&rel).parent() {
                            let _ = std::fs::create_dir_all(parent);
                        }
                        let _ = std::fs::write(&rel, c);
                    }
                });
            }
        }
        let mut pr = Rng::derive(job.seed, "pct");
        let pct_changes = (0..3).map(|_| pr.below(400) as u64).collect();
        Sim {
            job,
            generator: Some(Generator::new(cfg.gen_cfg.clone())),
            cfg,
            client,
            proc_: None,
            wire: VecDeque::new(),
            replay_script: None,
            replay_decisions: None,
            diverged: 0,
            peeked: None,
            script: vec![],
            decisions: vec![],
            rng_sched: Rng::derive(job.seed, "scheduler"),
            rng_work,
            rng_fault: Rng::derive(job.seed, "faults"),
            rng_sizes: Rng::derive(job.seed, "sizes"),
            rng_time: Rng::derive(job.seed, "time"),
            step: 0,
            res: RunResult::new(job),
            log: 0xcbf29ce484222325,
            sig: 0xcbf29ce484222325,
            due: BTreeMap::new(),
            pct_prio: BTreeMap::new(),
            pct_changes,
            max_outstanding_cfg: 0,
            max_pending_gates: 0,
            oracle_state: oracle::OracleState::default(),
            server_dead_reason: None,
            event_log: vec![],
            abstract_states: std::collections::HashSet::new(),
            burst_len: 0,
            max_burst_len: 0,
            keep_log: job.want_trace,
            quiescent_points: 0,
            doom: BTreeMap::new(),
        }
        .with_preexisting(preexisting)
        .with_foreign(foreign)
    }

    fn with_foreign(mut self, foreign: Vec<(String, Vec<u8>)>) -> Self {
        if !foreign.is_empty() {
            self.res.count("c10_sessions_with_foreign_files", 1);
        }
        self.oracle_state.foreign_files = foreign.into_iter().collect();
        self
    }

    fn with_preexisting(mut self, pre: Vec<(String, Vec<String>)>) -> Self {
        // words found in a dictionary file count as added (and acknowledged) from the start
        let mut id = -1i64;
        for (path, words) in pre {
            for w in words {
                self.client.added.push(client::AddedWord { word: w.clone(), file: None, req_id: id, acked: true, faulted: false });
                self.oracle_state.dict_model.entry(format!("user|{path}")).or_default().push((w, id));
                id -= 1;
            }
            self.res.count("preexisting_dictionary", 1);
        }
        self
    }

    fn note(&mut self, s: &str) {
        self.log = (self.log ^ fnv1a(s.as_bytes())).wrapping_mul(0x100000001B3);
        if self.keep_log || self.event_log.len() < 4000 {
            self.event_log.push(format!("{:>5} {}", self.step, s));
        }
    }

    fn peek_entry(&mut self) -> Option<&ScriptEntry> {
        if self.peeked.is_none() {
            self.peeked = if let Some(rs) = self.replay_script.as_mut() {
                rs.pop_front()
            } else {
                let mut g = self.generator.take().unwrap();
                let e = g.next(&self.client, &mut self.rng_work);
                self.generator = Some(g);
                e
            };
        }
        self.peeked.as_ref()
    }

    fn server_alive(&self) -> bool {
        self.proc_.as_ref().map(|p| !p.root.is_done()).unwrap_or(false)
    }
    pub fn server_alive_pub(&self) -> bool {
        self.server_alive()
    }
    /// Bytes delivered to the server's stdin that it has not read.
    pub fn stdin_unread(&self) -> usize {
        self.proc_.as_ref().map(|p| p.stdin.len()).unwrap_or(0)
    }

    /// Poll the server until it has nothing more to do without outside input.
    fn settle(&mut self) {
        let Some(p) = self.proc_.as_mut() else { return };
        if p.root.is_done() {
            return;
        }
        p.root.kick();
        match p.root.run_until_idle(10_000) {
            PollOutcome::Idle => {}
            PollOutcome::Done => {
                self.note("server-exit");
            }
            PollOutcome::Spinning => {
                self.res.harness("server future keeps waking itself (10000 polls in one step)");
            }
            PollOutcome::Panicked(m) => {
                self.note(&format!("server-panic {m}"));
                self.server_dead_reason = Some(m.clone());
                let loc = crate::exec::LAST_PANIC_LOCATION.lock().map(|l| l.clone()).unwrap_or_default();
                let loc = loc.strip_prefix("/repo/").unwrap_or(&loc).to_string();
                let langs: Vec<String> = self.client.docs.iter().map(|d| d.lang.clone()).collect();
                let facts = json!({"panic": m, "location": loc, "langs": langs});
                self.res.violate(Violation {
                    property: oracle::panic_property(&self.job.prop),
                    oracle: "server_alive".into(),
                    class: "server_panic".into(),
                    detail: format!("the language server panicked at {loc}: {m}"),
                    facts,
                });
            }
        }
    }

    fn enabled(&mut self) -> Vec<Ev> {
        let mut evs = vec![];
        let alive = self.server_alive();
        if alive {
            if let Some(p) = self.proc_.as_ref() {
                if p.stdout.len() > 0 {
                    evs.push(Ev::Drain);
                }
            }
            let n = self.client.server_reqs.len();
            if n > 0 {
                if self.cfg.answers_any_order {
                    for i in 0..n {
                        evs.push(Ev::Answer(i));
                    }
                } else {
                    evs.push(Ev::Answer(0));
                }
            }
            let gates = fsim::pending();
            self.max_pending_gates = self.max_pending_gates.max(gates.len());
            let faultable = self.cfg.fs_error_pm > 0 && self.add_command_running().is_some();
            for g in gates {
                use tokio::sim::GateKind as K;
                if faultable && matches!(g.kind, K::Open | K::Create | K::Mkdir | K::Read | K::Write | K::Flush | K::Rename) {
                    if self.replay_decisions.is_some() {
                        // replay by trace: the recorded label says which of the two happened
                        evs.push(Ev::Gate(g.id));
                        evs.push(Ev::GateFail(g.id, libc::EIO));
                        continue;
                    }
                    let pm = self.cfg.fs_error_pm;
                    let fate = match self.doom.get(&g.id) {
                        Some(f) => *f,
                        None => {
                            let f = if self.rng_fault.chance(pm, 1000) {
                                Some(match g.kind {
                                    K::Open | K::Read => *self.rng_fault.pick(&[libc::EIO, libc::EMFILE, libc::EACCES]),
                                    K::Create | K::Mkdir => *self.rng_fault.pick(&[libc::ENOSPC, libc::EMFILE, libc::EACCES, libc::EIO]),
                                    _ => *self.rng_fault.pick(&[libc::ENOSPC, libc::EIO]),
                                })
                            } else {
                                None
                            };
                            self.doom.insert(g.id, f);
                            f
                        }
                    };
                    match fate {
                        Some(errno) => evs.push(Ev::GateFail(g.id, errno)),
                        None => evs.push(Ev::Gate(g.id)),
                    }
                } else {
                    evs.push(Ev::Gate(g.id));
                }
            }
            if !self.wire.is_empty() {
                evs.push(Ev::Deliver);
            }
        }
        let quiet = evs.is_empty();
        if !quiet && self.peeked.is_none() && self.generator.as_ref().map(|g| g.needs_quiet()).unwrap_or(false) {
            return evs;
        }
        let seq = self.cfg.policy == Policy::Sequential;
        // (only C09's sessions may flood the server with more messages than tower-lsp's request
        // queue holds while it is busy: that is a recorded finding of C09, not the other checks' topic)
        let flood_guard = self.job.prop != "C09" && self.burst_len >= 90;
        // a crash never waits for the server to be idle, under any policy
        let wait = self.peek_entry().map(|e| !matches!(e.op, Op::Kill { .. }) && (e.wait_quiet || seq || flood_guard));
        match wait {
            Some(true) if quiet => evs.push(Ev::Send),
            Some(false) => evs.push(Ev::Send),
            _ => {}
        }
        evs
    }

    fn label(&self, ev: &Ev) -> String {
        match ev {
            Ev::Send => "send".into(),
            Ev::Deliver => "deliver".into(),
            Ev::Answer(i) => format!("answer:{}", self.client.server_reqs[*i].id),
            Ev::Gate(id) => {
                let ps = fsim::pending();
                let g = ps.iter().find(|g| g.id == *id).unwrap();
                let same: Vec<u64> = ps.iter().filter(|x| x.kind == g.kind && x.path == g.path).map(|x| x.id).collect();
                let ord = same.iter().position(|x| x == id).unwrap_or(0);
                format!("gate:{}:{}#{}", g.kind.name(), g.path.display(), ord)
            }
            Ev::GateFail(id, _) => {
                let ps = fsim::pending();
                let g = ps.iter().find(|g| g.id == *id).unwrap();
                let same: Vec<u64> = ps.iter().filter(|x| x.kind == g.kind && x.path == g.path).map(|x| x.id).collect();
                let ord = same.iter().position(|x| x == id).unwrap_or(0);
                format!("gatefail:{}:{}#{}", g.kind.name(), g.path.display(), ord)
            }
            Ev::Drain => "drain".into(),
        }
    }

    /// The add-word command that is being served, if it is the only request in flight.
    fn add_command_running(&self) -> Option<i64> {
        if self.cfg.policy != Policy::Sequential || self.client.pending.len() != 1 {
            return None;
        }
        let p = self.client.pending.values().next()?;
        let cmd = p.params["command"].as_str().unwrap_or("");
        if p.method == "workspace/executeCommand" && matches!(cmd, "HarperAddToUserDict" | "HarperAddToFileDict") { Some(p.id) } else { None }
    }

    fn kind_index(ev: &Ev) -> usize {
        match ev {
            Ev::Send => 0,
            Ev::Deliver => 1,
            Ev::Answer(_) => 2,
            Ev::Gate(_) | Ev::GateFail(..) => 3,
            Ev::Drain => 4,
        }
    }

    fn source_key(&self, ev: &Ev) -> String {
        // identity of the event *source* for PCT priorities and latency due-times
        match ev {
            Ev::Send => format!("send#{}", self.script.len()),
            Ev::Deliver => "deliver".into(),
            Ev::Answer(i) => format!("answer#{}", self.client.server_reqs[*i].seq),
            Ev::Gate(id) | Ev::GateFail(id, _) => format!("gate#{id}"),
            Ev::Drain => "drain".into(),
        }
    }

    /// Pick the next event; in replay also the recorded size parameter (bytes delivered / drained).
    fn choose(&mut self, evs: &[Ev]) -> (usize, Option<usize>) {
        // replay by trace: follow the recorded labels while they are enabled
        if let Some(rd) = self.replay_decisions.as_mut() {
            if let Some(want) = rd.pop_front() {
                let (want_base, param) = match want.split_once('=') {
                    Some((b, n)) => (b.to_string(), n.parse::<usize>().ok()),
                    None => (want.clone(), None),
                };
                let labels: Vec<String> = evs.iter().map(|e| self.label(e)).collect();
                if let Some(i) = labels.iter().position(|l| *l == want_base) {
                    return (i, param);
                }
                self.diverged += 1;
            }
            // canonical default: the first enabled event, whole buffers
            return (0, Some(usize::MAX));
        }
        (self.choose_by_policy(evs), None)
    }

    fn choose_by_policy(&mut self, evs: &[Ev]) -> usize {
        match self.cfg.policy {
            Policy::Sequential => 0,
            Policy::Random => {
                let ws: Vec<usize> = evs.iter().map(|e| self.cfg.kind_weights[Self::kind_index(e)]).collect();
                self.rng_sched.weighted(&ws)
            }
            Policy::Latency => {
                let now = seam::now_nanos();
                let mut best = 0;
                let mut best_due = i64::MAX;
                for (i, e) in evs.iter().enumerate() {
                    let k = self.source_key(e);
                    let lat = self.cfg.latency[Self::kind_index(e)];
                    let due = match self.due.get(&k) {
                        Some(d) => *d,
                        None => {
                            let jitter = self.rng_sched.below(lat as usize + 1) as i64;
                            let d = now + (lat as i64) / 2 + jitter;
                            self.due.insert(k, d);
                            d
                        }
                    };
                    if due < best_due {
                        best_due = due;
                        best = i;
                    }
                }
                if best_due > now {
                    seam::set_time_nanos(best_due);
                }
                best
            }
            Policy::Pct => {
                if self.pct_changes.contains(&self.step) {
                    // priority change point: demote a random current source
                    let i = self.rng_sched.below(evs.len());
                    let k = self.source_key(&evs[i]);
                    self.pct_prio.insert(k, self.step); // low value = low priority
                }
                let mut best = 0;
                let mut best_p = 0u64;
                for (i, e) in evs.iter().enumerate() {
                    let k = self.source_key(e);
                    let p = match self.pct_prio.get(&k) {
                        Some(p) => *p,
                        None => {
                            let p = 1_000_000 + self.rng_sched.next_u64() % 1_000_000;
                            self.pct_prio.insert(k, p);
                            p
                        }
                    };
                    if p >= best_p {
                        best_p = p;
                        best = i;
                    }
                }
                best
            }
        }
    }

    /// Fire an event.  Returns the size parameter used (recorded in the decision label).
    fn fire(&mut self, ev: Ev, param: Option<usize>) -> Option<usize> {
        match ev {
            Ev::Send => {
                self.do_send();
                None
            }
            Ev::Deliver => {
                // fragment at most every third delivery, so that byte-sized chunks cannot eat the step budget
                let n = match param {
                    Some(p) => p.min(self.wire.len()).max(1),
                    None => {
                        if self.cfg.chunk_max == 0 || !self.rng_sizes.chance(1, 3) {
                            self.wire.len()
                        } else {
                            self.rng_sizes.range(1, self.cfg.chunk_max).min(self.wire.len())
                        }
                    }
                };
                let bytes: Vec<u8> = self.wire.drain(..n).collect();
                self.note(&format!("deliver {n}"));
                if let Some(p) = self.proc_.as_ref() {
                    p.stdin.push(&bytes);
                }
                self.res.count("delivered_chunks", 1);
                if !self.wire.is_empty() {
                    self.res.count("frame_fragmented", 1);
                }
                Some(n)
            }
            Ev::Answer(i) => {
                let outstanding_cfg = self.client.server_reqs.iter().filter(|r| r.method == "workspace/configuration").count();
                self.max_outstanding_cfg = self.max_outstanding_cfg.max(outstanding_cfg);
                let (resp, req) = self.client.answer(i);
                self.note(&format!("answer {} {}", req.method, req.id));
                self.wire.extend(frame(&resp));
                self.res.count("answers", 1);
                None
            }
            Ev::Gate(id) => {
                let d = fsim::pending().into_iter().find(|g| g.id == id);
                if let Some(d) = d {
                    self.note(&format!("gate {} {}", d.kind.name(), d.path.display()));
                    self.res.count(&format!("gate_{}", d.kind.name()), 1);
                }
                fsim::fire(id);
                None
            }
            Ev::GateFail(id, errno) => {
                let errno = param.map(|p| p as i32).unwrap_or(errno);
                let d = fsim::pending().into_iter().find(|g| g.id == id);
                if let Some(d) = d {
                    self.note(&format!("gate {} {} fails with errno {errno}", d.kind.name(), d.path.display()));
                    self.res.count("fs_error_injected", 1);
                    self.res.count(&format!("fs_error_on_{}", d.kind.name()), 1);
                }
                // the word of the command being served may or may not reach its dictionary; what
                // the server shows for the open documents until their next update may be computed
                // without a dictionary it could not read
                if let Some(req) = self.add_command_running() {
                    for a in self.client.added.iter_mut().filter(|a| a.req_id == req) {
                        if !a.faulted {
                            a.faulted = true;
                            self.res.count("add_with_fs_error", 1);
                        }
                    }
                }
                for d in self.client.docs.iter_mut() {
                    d.dict_tainted = true;
                }
                fsim::fire_fail(id, errno);
                Some(errno as usize)
            }
            Ev::Drain => {
                let Some(p) = self.proc_.as_ref() else { return None };
                let avail = p.stdout.len();
                let n = match param {
                    Some(p) => p.min(avail).max(1),
                    None => {
                        if self.cfg.stdout_cap == 0 { avail } else { self.rng_sizes.range(1, avail) }
                    }
                };
                let bytes = p.stdout.pull(n);
                let msgs = self.client.on_bytes(&bytes, self.step);
                self.note(&format!("drain {n}"));
                for m in msgs {
                    let s = serde_json::to_string(&m).unwrap();
                    self.note(&format!("recv {s}"));
                    oracle::on_receive(self, &m);
                }
                Some(n)
            }
        }
    }

    fn do_send(&mut self) {
        let Some(entry) = self.peeked.take() else { return };
        self.script.push(entry.clone());
        match &entry.op {
            Op::Spawn => {
                self.note("spawn");
                self.doom.clear();
                fsim::reset();
                fsim::enable(true);
                self.install_short();
                self.client.on_spawn();
                self.wire.clear();
                self.proc_ = Some(spawn_proc(self.cfg.stdout_cap));
                self.res.count("spawn", 1);
                if self.client.lifetime > 1 {
                    self.res.count("restart_orderly", 1);
                }
                oracle::on_spawn(self);
            }
            Op::Kill { torn } => {
                self.note("kill");
                self.apply_torn_writes(torn.as_deref());
                oracle::before_kill(self);
                if let Some(mut p) = self.proc_.take() {
                    p.root.kill();
                    drop(p);
                }
                fsim::reset();
                self.doom.clear();
                self.wire.clear();
                self.res.count("crash", 1);
                oracle::after_kill(self);
            }
            Op::Msg { json, pre, set_settings } => {
                if !self.server_alive() {
                    // (possible in minimised scripts only) nobody is listening
                    self.note("send-to-dead");
                    self.client.apply_fs(pre);
                    return;
                }
                self.client.apply_fs(pre);
                for a in pre {
                    if let client::FsAct::AppendWord { path, word } = a {
                        let id = self.client.added.iter().rev().find(|x| x.word == *word && x.req_id <= -1_000_000).map(|x| x.req_id).unwrap_or(-1_000_000);
                        self.oracle_state.dict_model.entry(format!("user|{path}")).or_default().push((word.clone(), id));
                        self.res.count("dictionary_edited_by_hand", 1);
                    }
                }
                self.client.on_send(json, set_settings, self.step);
                let s = serde_json::to_string(json).unwrap();
                self.note(&format!("send {s}"));
                oracle::on_send(self, json);
                self.wire.extend(frame(json));
                self.res.count("client_messages", 1);
                self.burst_len += 1;
                self.max_burst_len = self.max_burst_len.max(self.burst_len);
                if !entry.wait_quiet {
                    self.res.count("sent_back_to_back", 1);
                }
            }
        }
    }

    /// The process dies with writes in flight: each pending write lands as a
    /// seeded prefix (0, 1, half, all-but-one or all bytes, or a random cut).
    fn apply_torn_writes(&mut self, how: Option<&str>) {
        use std::io::Write;
        for g in fsim::pending() {
            if g.kind != tokio::sim::GateKind::Write {
                continue;
            }
            let Some(data) = fsim::peek_data(g.id) else { continue };
            let n = data.len();
            let cut = match how {
                Some("0") => 0,
                Some("1") => 1.min(n),
                Some("half") => n / 2,
                Some("allbut1") => n.saturating_sub(1),
                Some("all") => n,
                Some(num) if num.parse::<usize>().is_ok() => num.parse::<usize>().unwrap().min(n),
                _ => match self.rng_fault.below(6) {
                    0 => 0,
                    1 => 1.min(n),
                    2 => n / 2,
                    3 => n.saturating_sub(1),
                    4 => n,
                    _ => self.rng_fault.below(n + 1),
                },
            };
            self.note(&format!("torn-write {} {}/{}", g.path.display(), cut, n));
            if how.is_none() {
                // remember the choice in the script, so that a replay by trace tears the same way
                if let Some(ScriptEntry { op: Op::Kill { torn }, .. }) = self.script.last_mut() {
                    *torn = Some(cut.to_string());
                }
            }
            if cut > 0 {
                seam::as_harness(|| {
                    // through the descriptor the write was aimed at (the name may have moved on)
                    if !fsim::land_prefix(g.id, cut) {
                        if let Ok(mut f) = std::fs::OpenOptions::new().append(true).open(&g.path) {
                            let _ = f.write_all(&data[..cut]);
                        }
                    }
                });
            }
            self.res.count("torn_write", 1);
            if cut > 0 && cut < n {
                self.res.count("torn_write_partial", 1);
            }
        }
        for g in fsim::pending() {
            self.res.count(&format!("crash_with_pending_{}", g.kind.name()), 1);
        }
    }

    /// Abstract state of the whole system at a scheduling point: what is in flight and what the
    /// editor currently believes (used only to measure how many distinct situations were reached).
    fn record_abstract_state(&mut self, evs: &[Ev]) {
        let mut inflight: Vec<&str> = self.client.pending.values().map(|p| p.method.as_str()).collect();
        inflight.sort();
        let mut gates: Vec<&'static str> = fsim::pending().iter().map(|g| g.kind.name()).collect();
        gates.sort();
        let server_reqs = self.client.server_reqs.len();
        let mut docs: Vec<(bool, bool, u64)> = self
            .client
            .docs
            .iter()
            .map(|d| (d.open, d.known_to_server, self.client.last_publish(&d.uri).map(|p| p.diags.len() as u64).unwrap_or(u64::MAX)))
            .collect();
        docs.sort();
        let kinds: Vec<usize> = evs.iter().map(Self::kind_index).collect();
        let h = fnv1a(format!("{inflight:?}|{gates:?}|{server_reqs}|{}|{docs:?}|{kinds:?}", self.wire.is_empty()).as_bytes());
        if self.abstract_states.insert(h) {
            self.res.states.push(h);
        }
    }

    fn install_short(&mut self) {
        let pm = self.cfg.fs_short_pm;
        if pm == 0 {
            fsim::set_short(None);
            return;
        }
        let mut r = Rng::derive(self.job.seed ^ self.client.lifetime, "fs-short");
        fsim::set_short(Some(Box::new(move |_k, len| if r.chance(pm, 1000) { r.range(1, len - 1) } else { len })));
    }

    /// Run until the script is exhausted and the system is quiescent.
    pub fn execute(&mut self) {
        seam::set_io_faults(self.job.seed | 1, self.cfg.libc_short_pm, self.cfg.libc_eintr_pm);
        loop {
            self.step += 1;
            if self.step > self.cfg.max_steps {
                self.res.harness(format!("step cap {} exceeded with events still enabled", self.cfg.max_steps));
                return;
            }
            self.settle();
            if matches!(self.res.verdict, crate::job::Verdict::Harness(_)) {
                return;
            }
            if self.server_dead_reason.is_some() {
                return;
            }
            let evs = self.enabled();
            if evs.is_empty() {
                // nothing can happen any more.  Bounded liveness: one more request
                // (the sentinel) must still be served; then the run ends.
                if self.oracle_state.sentinel.is_none() && self.server_alive() && self.client.initialized && !self.client.shutdown_acked {
                    let id = self.client.next_id.max(1);
                    self.oracle_state.sentinel = Some(id);
                    let uri = self.client.docs.first().map(|d| d.uri.clone()).unwrap_or_else(|| "file:///nowhere".into());
                    let m = workload::request(
                        id,
                        "textDocument/codeAction",
                        json!({"textDocument":{"uri":uri},"range":{"start":{"line":0,"character":0},"end":{"line":0,"character":0}},"context":{"diagnostics":[]}}),
                    );
                    self.client.on_send(&m, &None, self.step);
                    self.note("sentinel");
                    self.wire.extend(frame(&m));
                    continue;
                }
                return;
            }
            // quiescent point: only `send` is possible and the next entry waited for it
            if evs.len() == 1 && evs[0] == Ev::Send && self.server_alive() && self.client.initialized {
                let waited = self.peeked.as_ref().map(|e| e.wait_quiet).unwrap_or(false) || self.cfg.policy == Policy::Sequential;
                self.burst_len = 0;
                if waited && self.cfg.check_intermediate {
                    self.quiescent_points += 1;
                    oracle::at_quiescence(self, false);
                }
            }
            self.record_abstract_state(&evs);
            let (i, param) = self.choose(&evs);
            let ev = evs[i].clone();
            let label = self.label(&ev);
            self.sig = (self.sig ^ fnv1a(label_kind(&label).as_bytes())).wrapping_mul(0x100000001B3);
            // every event costs a little simulated time
            seam::advance_nanos(1_000 + (self.rng_time.below(50_000) as i64));
            match self.fire(ev, param) {
                Some(n) => self.decisions.push(format!("{label}={n}")),
                None => self.decisions.push(label),
            }
        }
    }

    pub fn finish(mut self) -> RunResult {
        if !matches!(self.res.verdict, crate::job::Verdict::Harness(_)) && self.server_dead_reason.is_none() {
            oracle::at_end(&mut self);
        }
        self.res.count("c19_libc_short_writes", seam::IO_SHORT_WRITES.load(std::sync::atomic::Ordering::Relaxed) as u64);
        fsim::enable(false);
        seam::set_io_faults(0, 0, 0);
        let c = &self.client;
        self.res.count("steps", self.step);
        self.res.count("quiescent_points", self.quiescent_points);
        self.res.count("answers_out_of_order", c.answers_out_of_order);
        self.res.count("config_answered_with_error", c.error_answers);
        self.res.count("replay_divergences", self.diverged);
        if self.max_outstanding_cfg >= 2 {
            self.res.count("handlers_overlapped_2", 1);
        }
        if self.max_outstanding_cfg >= 3 {
            self.res.count("handlers_overlapped_3", 1);
        }
        if self.max_outstanding_cfg >= 4 {
            self.res.count("handlers_overlapped_4", 1);
        }
        if self.max_pending_gates >= 2 {
            self.res.count("fs_ops_overlapped", 1);
        }
        self.res.count("gates_created", fsim::gates_created());
        self.res.count("io_short_writes_libc", seam::IO_SHORT_WRITES.load(std::sync::atomic::Ordering::Relaxed) as u64);
        self.res.count("io_eintr_libc", seam::IO_EINTRS.load(std::sync::atomic::Ordering::Relaxed) as u64);
        self.res.steps = self.step;
        self.res.sim_nanos = seam::now_nanos();
        self.res.signature = self.sig;
        self.res.log_hash = self.log;
        self.res.nontrivial = self.max_outstanding_cfg >= 2
            || self.max_pending_gates >= 2
            || self.res.counters.get("crash").copied().unwrap_or(0) > 0
            || (self.cfg.policy == Policy::Sequential && self.script.len() > 4);
        if self.cfg.policy == Policy::Sequential {
            // sequential runs are distinguished by their script
            let s = serde_json::to_string(&self.script).unwrap();
            self.res.signature ^= fnv1a(s.as_bytes());
        }
        let trace = json!({
            "engine": "lsp-sim",
            "seed": self.job.seed,
            "cfg": self.cfg,
            "script": self.script,
            "decisions": self.decisions,
        });
        if self.job.want_trace || !self.res.violations.is_empty() {
            let mut t = trace.clone();
            t["event_log"] = json!(self.event_log);
            self.res.trace = Some(t);
        }
        self.res.sample = Some(json!({
            "engine":"lsp-sim","seed":self.job.seed,"policy":self.cfg.policy,
            "docs": self.client.docs.iter().map(|d| json!({"uri":d.uri,"lang":d.lang})).collect::<Vec<_>>(),
            "script": self.script.iter().map(script_view).collect::<Vec<_>>(),
            "decisions": self.decisions.iter().map(|d| label_kind(d)).collect::<Vec<_>>().join(" "),
        }));
        self.res
    }
}

fn script_view(e: &ScriptEntry) -> Value {
    match &e.op {
        Op::Spawn => json!("SPAWN"),
        Op::Kill { .. } => json!("KILL"),
        Op::Msg { json, .. } => {
            let m = json["method"].as_str().unwrap_or("response");
            let extra = match m {
                "workspace/executeCommand" => json["params"]["command"].as_str().unwrap_or("").to_string(),
                "textDocument/didChange" | "textDocument/didOpen" => {
                    let t = json["params"]["contentChanges"][0]["text"].as_str().or(json["params"]["textDocument"]["text"].as_str()).unwrap_or("");
                    format!("{} chars", t.chars().count())
                }
                _ => String::new(),
            };
            json!(format!("{}{} {}", if e.wait_quiet { "| " } else { "+ " }, m, extra))
        }
    }
}

/// The kind part of a decision label (for schedule signatures).
fn label_kind(l: &str) -> String {
    let l = l.split('=').next().unwrap_or(l);
    if let Some(rest) = l.strip_prefix("gate:") {
        let kind = rest.split(':').next().unwrap_or("");
        return format!("g.{kind}");
    }
    if let Some(rest) = l.strip_prefix("gatefail:") {
        let kind = rest.split(':').next().unwrap_or("");
        return format!("gf.{kind}");
    }
    if l.starts_with("answer:") {
        return "a".into();
    }
    match l {
        "send" => "S".into(),
        "deliver" => "d".into(),
        "drain" => "r".into(),
        o => o.into(),
    }
}

fn prepare_world() {
    seam::as_harness(prepare_world_inner)
}
fn prepare_world_inner() {
    for d in ["w", "w/home/.config", "w/home/.local/share", "w/home/.local/state", "w/home/.cache", "w/tmp", "w/run", "w/ws", "w/cfg"] {
        let _ = std::fs::create_dir_all(d);
    }
    let _ = WORLD;
}

pub fn run(job: &Job) -> RunResult {
    prepare_world();
    // replay by trace?
    let mut replay: Option<Value> = None;
    if let Some(p) = &job.replay_file {
        match std::fs::read(p).ok().and_then(|b| serde_json::from_slice::<Value>(&b).ok()) {
            Some(v) => replay = Some(v["trace"].clone()),
            None => {
                let mut r = RunResult::new(job);
                r.harness(format!("cannot read replay file {p}"));
                return r;
            }
        }
    }
    let mut cfg = derive_cfg(job);
    if let Some(t) = &replay {
        if let Ok(c) = serde_json::from_value::<SimCfg>(t["cfg"].clone()) {
            cfg = c;
        }
    }
    // hash universe: burn per-thread hasher seeds so that every hash map built
    // from here on iterates in a universe-specific order
    for _ in 0..cfg.universe {
        let _ = std::hint::black_box(foldhash::fast::RandomState::default());
    }
    seam::seed_random(crate::rng::mix64(job.seed ^ cfg.universe.wrapping_mul(0x9E37_79B9)));
    crate::corpus::UNICODE_HEAVY.with(|u| u.set(cfg.gen_cfg.unicode_heavy));
    crate::corpus::BIG_DOCS.with(|u| u.set(cfg.gen_cfg.big_docs));
    let mut sim = Sim::new(job, cfg);
    if let Some(t) = &replay {
        if let Ok(s) = serde_json::from_value::<Vec<ScriptEntry>>(t["script"].clone()) {
            sim.replay_script = Some(s.into());
            sim.generator = None;
        }
        if let Ok(d) = serde_json::from_value::<Vec<String>>(t["decisions"].clone()) {
            sim.replay_decisions = Some(d.into());
        }
    }
    sim.execute();
    sim.finish()
}
