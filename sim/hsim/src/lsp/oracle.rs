//! Oracles of the lsp-sim engine.  Every check is either a direct reading of the
//! property on the client model's own truth, or a comparison with the stateless
//! reference (`reference.rs`).  Only the oracles of the job's property run.

use super::Sim;
use super::client::Doc;
use super::reference::{self, Diag, Reference, Settings};
use crate::job::Violation;
use crate::orch::WORLD;
use crate::rng::fnv1a;
use serde_json::{Value, json};
use std::collections::{BTreeMap, HashMap};

#[derive(Default)]
pub struct OracleState {
    /// memo: hash(text, lang, settings, words) -> reference diagnostics (None = unsupported language)
    memo: HashMap<u64, Option<Vec<Diag>>>,
    pub refs_computed: u64,
    pub refs_memo_hits: u64,
    pub sentinel: Option<i64>,
}

pub fn panic_property(job_prop: &str) -> String {
    // a crashed server can no longer have the right last word (C09); when another
    // property's check sees it, it is reported under that check's property so
    // that the check's own VIOLATION line is consistent.
    job_prop.to_string()
}

// ------------------------------------------------------------------ paths (the oracle's own resolution)

pub fn default_user_dict() -> String {
    format!("{WORLD}/home/.config/harper-ls/dictionary.txt")
}
pub fn default_file_dict_dir() -> String {
    format!("{WORLD}/home/.local/share/harper-ls/file_dictionaries")
}
pub fn default_stats() -> String {
    format!("{WORLD}/home/.local/share/harper-ls/stats.txt")
}
pub fn user_dict_path(s: &Settings) -> String {
    match &s.user_dict_path {
        Some(p) if !p.is_empty() => p.clone(),
        _ => default_user_dict(),
    }
}
pub fn file_dict_dir(s: &Settings) -> String {
    match &s.file_dict_path {
        Some(p) if !p.is_empty() => p.trim_end_matches('/').to_string(),
        _ => default_file_dict_dir(),
    }
}
pub fn stats_path(s: &Settings) -> String {
    match &s.stats_path {
        Some(p) if !p.is_empty() => p.clone(),
        _ => default_stats(),
    }
}
/// The per-file dictionary name: path components joined and terminated by '%'.
pub fn file_dict_name(path: &str) -> String {
    let mut out = String::new();
    for seg in path.split('/').filter(|s| !s.is_empty()) {
        out.push_str(seg);
        out.push('%');
    }
    out
}
pub fn file_dict_path(s: &Settings, doc_path: &str) -> String {
    format!("{}/{}", file_dict_dir(s), file_dict_name(doc_path))
}

/// Read a dictionary file the way the format is defined: one word per line.
pub fn read_words(path: &str) -> Option<Vec<String>> {
    let bytes = std::fs::read(path).ok()?;
    let s = String::from_utf8_lossy(&bytes).to_string();
    Some(s.lines().map(|l| l.to_string()).collect())
}

// ------------------------------------------------------------------ reference with memo

fn ref_diags(sim: &mut Sim, text: &str, lang: &str, settings: &Settings, user: &[String], file: &[String]) -> Option<Vec<Diag>> {
    let key = fnv1a(
        serde_json::to_string(&json!([text, lang, settings.linters, settings.dialect, settings.severity, settings.isolate_english, settings.ignore_link_title, user, file]))
            .unwrap()
            .as_bytes(),
    );
    if let Some(v) = sim.oracle_state.memo.get(&key) {
        sim.oracle_state.refs_memo_hits += 1;
        return v.clone();
    }
    sim.oracle_state.refs_computed += 1;
    let out = match reference::lints_for(text, lang, settings, user, file) {
        Reference::Unsupported => None,
        Reference::Lints(r) => Some(reference::lints_to_diags(&r.source, &r.lints, settings.severity_code())),
    };
    sim.oracle_state.memo.insert(key, out.clone());
    out
}

fn current_words(sim: &Sim, doc: &Doc) -> (Vec<String>, Vec<String>) {
    let s = &sim.client.settings;
    let user = read_words(&user_dict_path(s)).unwrap_or_default();
    let file = if doc.uri.starts_with("file:") { read_words(&file_dict_path(s, &doc.path)).unwrap_or_default() } else { vec![] };
    (user, file)
}

/// Remove from a diagnostics list everything that an ignore command of this
/// document may legitimately hide (three-valued treatment: C14 decides those).
fn strip_ignorable(sim: &Sim, doc: &Doc, diags: &[Diag]) -> Vec<Diag> {
    let ign: Vec<(String, String)> = sim
        .client
        .ignored
        .iter()
        .filter(|i| i.uri == doc.uri)
        .filter_map(|i| {
            let msg = i.lint["message"].as_str()?.to_string();
            let (s, e) = (i.lint["span"]["start"].as_u64()? as usize, i.lint["span"]["end"].as_u64()? as usize);
            let chars: Vec<char> = i.text_at_ignore.chars().collect();
            if s <= e && e <= chars.len() { Some((msg, chars[s..e].iter().collect())) } else { None }
        })
        .collect();
    if ign.is_empty() {
        return diags.to_vec();
    }
    let src: Vec<char> = doc.text.chars().collect();
    diags
        .iter()
        .filter(|d| {
            let covered: Option<String> = match (reference::pos_to_index(&src, d.sl, d.sc), reference::pos_to_index(&src, d.el, d.ec)) {
                (Some(a), Some(b)) if a <= b => Some(src[a..b].iter().collect()),
                _ => None,
            };
            !ign.iter().any(|(m, t)| *m == d.message && covered.as_deref().map(|c| c == t).unwrap_or(true))
        })
        .cloned()
        .collect()
}

fn diag_view(d: &[Diag]) -> Value {
    json!(d.iter().map(|x| format!("{}:{}-{}:{} {}", x.sl, x.sc, x.el, x.ec, x.message)).collect::<Vec<_>>())
}

// ------------------------------------------------------------------ C09: the last word

fn check_last_word(sim: &mut Sim, final_: bool) {
    let docs: Vec<Doc> = sim.client.docs.clone();
    let settings = sim.client.settings.clone();
    for doc in &docs {
        let observed_raw: Vec<Diag> = sim.client.last_publish(&doc.uri).map(|p| p.diags.clone()).unwrap_or_default();
        if !doc.open {
            if !observed_raw.is_empty() {
                sim.res.violate(Violation {
                    property: "C09".into(),
                    oracle: "C09.closed_is_empty".into(),
                    class: "closed_not_empty".into(),
                    detail: format!("{} is closed/deleted but its last published diagnostics are {}", doc.uri, diag_view(&observed_raw)),
                    facts: json!({"lang": doc.lang, "final": final_}),
                });
            }
            continue;
        }
        if !doc.known_to_server {
            // open in the editor, but this server process has not been told yet
            continue;
        }
        let (user, file) = current_words(sim, doc);
        let expected_raw = ref_diags(sim, &doc.text, &doc.lang, &settings, &user, &file).unwrap_or_default();
        let expected = strip_ignorable(sim, doc, &expected_raw);
        let observed = strip_ignorable(sim, doc, &observed_raw);
        if expected == observed {
            sim.res.count("last_word_checked", 1);
            if !expected.is_empty() {
                sim.res.count("last_word_checked_nonempty", 1);
            }
            continue;
        }
        // classify the mismatch: which older truth does the server's word reflect?
        let mut class = "other".to_string();
        let mut why = String::new();
        let n = doc.history.len();
        if class == "other" {
            if let Some(disk) = &doc.disk {
                if *disk != doc.text {
                    let r = ref_diags(sim, disk, &doc.lang, &settings, &user, &file).unwrap_or_default();
                    if strip_ignorable(sim, doc, &r) == observed {
                        class = "disk_text".into();
                        why = "they are the diagnostics of the file on disk, not of the editor's unsaved buffer".into();
                    }
                }
            }
        }
        if class == "other" {
        for (k, old) in doc.history.iter().enumerate().rev().skip(1) {
            if *old == doc.text {
                continue;
            }
            let r = ref_diags(sim, old, &doc.lang, &settings, &user, &file).unwrap_or_default();
            if strip_ignorable(sim, doc, &r) == observed {
                class = "stale_text".into();
                why = format!("they are the diagnostics of an older text (version {} of {} sent since open)", k + 1, n);
                break;
            }
        }
        }
        if class == "other" {
            // dictionary state: without the words added most recently
            let added_user: Vec<String> = sim.client.added.iter().filter(|a| a.file.is_none()).map(|a| a.word.clone()).collect();
            let added_file: Vec<String> = sim.client.added.iter().filter(|a| a.file.as_deref() == Some(doc.uri.as_str())).map(|a| a.word.clone()).collect();
            'outer: for drop_u in 0..=added_user.len().min(3) {
                for drop_f in 0..=added_file.len().min(3) {
                    if drop_u == 0 && drop_f == 0 {
                        continue;
                    }
                    let du: Vec<&String> = added_user.iter().rev().take(drop_u).collect();
                    let df: Vec<&String> = added_file.iter().rev().take(drop_f).collect();
                    let u2: Vec<String> = user.iter().filter(|w| !du.contains(w)).cloned().collect();
                    let f2: Vec<String> = file.iter().filter(|w| !df.contains(w)).cloned().collect();
                    let r = ref_diags(sim, &doc.text, &doc.lang, &settings, &u2, &f2).unwrap_or_default();
                    if strip_ignorable(sim, doc, &r) == observed {
                        class = "stale_dict".into();
                        why = format!("they are the diagnostics under the dictionaries before the last {drop_u} user / {drop_f} file word(s) were added");
                        break 'outer;
                    }
                }
            }
        }
        if class == "other" {
            let hist: Vec<Settings> = sim.client.settings_history.iter().rev().take(4).cloned().collect();
            for old in hist {
                let (u2, f2) = (read_words(&user_dict_path(&old)).unwrap_or_default(), read_words(&file_dict_path(&old, &doc.path)).unwrap_or_default());
                let r = ref_diags(sim, &doc.text, &doc.lang, &old, &u2, &f2).unwrap_or_default();
                if strip_ignorable(sim, doc, &r) == observed {
                    class = "stale_config".into();
                    why = "they are the diagnostics under an older configuration".into();
                    break;
                }
            }
        }
        if class == "other" && observed.is_empty() && sim.client.last_publish(&doc.uri).is_none() {
            class = "never_published".into();
            why = "nothing was published for this open document in this server lifetime".into();
        }
        let missing: Vec<&Diag> = expected.iter().filter(|d| !observed.contains(d)).collect();
        let extra: Vec<&Diag> = observed.iter().filter(|d| !expected.contains(d)).collect();
        sim.res.violate(Violation {
            property: "C09".into(),
            oracle: "C09.last_word".into(),
            class: class.clone(),
            detail: format!(
                "{} ({}): the last published diagnostics differ from those of the newest text under the current dictionaries and configuration{}. missing={} unexpected={} policy={:?}",
                doc.uri,
                doc.lang,
                if why.is_empty() { String::new() } else { format!(": {why}") },
                diag_view(&missing.into_iter().cloned().collect::<Vec<_>>()),
                diag_view(&extra.into_iter().cloned().collect::<Vec<_>>()),
                sim.cfg.policy,
            ),
            facts: json!({"lang": doc.lang, "final": final_, "policy": sim.cfg.policy, "class": class}),
        });
    }
}

// ------------------------------------------------------------------ hooks called by the simulator

pub fn on_spawn(_sim: &mut Sim) {}
pub fn before_kill(_sim: &mut Sim) {}
pub fn after_kill(_sim: &mut Sim) {}
pub fn on_send(_sim: &mut Sim, _json: &Value) {}
pub fn on_receive(_sim: &mut Sim, _msg: &Value) {}

pub fn at_quiescence(sim: &mut Sim, final_: bool) {
    if !sim.server_alive_pub() || !sim.client.initialized {
        return;
    }
    match sim.job.prop.as_str() {
        "C09" => check_last_word(sim, final_),
        _ => {}
    }
}

pub fn at_end(sim: &mut Sim) {
    // bounded liveness: everything the client asked for has been answered
    if sim.server_alive_pub() {
        let unanswered: Vec<String> = sim.client.pending.values().map(|p| format!("{}#{}", p.method, p.id)).collect();
        if !unanswered.is_empty() {
            let prop = sim.job.prop.clone();
            sim.res.violate(Violation {
                property: prop,
                oracle: "liveness.stuck".into(),
                class: "stuck".into(),
                detail: format!(
                    "STUCK: input and faults have stopped, no event is enabled, but the server never answered {:?} (server requests outstanding: {}, gates pending: {})",
                    unanswered,
                    sim.client.server_reqs.len(),
                    tokio::sim::pending().len()
                ),
                facts: json!({"unanswered": unanswered.iter().map(|u| u.split('#').next().unwrap_or("").to_string()).collect::<Vec<_>>()}),
            });
            return;
        }
    }
    at_quiescence(sim, true);
    let s = &sim.oracle_state;
    let (a, b) = (s.refs_computed, s.refs_memo_hits);
    sim.res.count("oracle_refs_computed", a);
    sim.res.count("oracle_refs_memo_hits", b);
    let _ = BTreeMap::<u8, u8>::new();
}
