//! Oracles of the lsp-sim engine.  Every check is either a direct reading of the
//! property on the client model's own truth, or a comparison with the stateless
//! reference (`reference.rs`).  Only the oracles of the job's property run.

use super::Sim;
use super::client::Doc;
use super::reference::{self, Diag, Reference, Settings};
use crate::job::Violation;
use crate::orch::WORLD;
use crate::rng::fnv1a;
use serde_json::{Value, json};
use std::collections::{BTreeMap, HashMap};

#[derive(Default)]
pub struct OracleState {
    /// memo: hash(text, lang, settings, words) -> reference diagnostics (None = unsupported language)
    memo: HashMap<u64, Option<Vec<Diag>>>,
    pub refs_computed: u64,
    pub refs_memo_hits: u64,
    /// memo of full reference outputs (C08 needs the lints, not only the diagnostics)
    full_memo: HashMap<u64, std::rc::Rc<reference::RefOut>>,
    pub sentinel: Option<i64>,
    /// C10: everything the seam has seen the simulated code do to the file system / network
    pub fs_log: Vec<String>,
    /// C07: per logical dictionary ("user|<path>" or "file|<uri>|<path>"), the words the client
    /// asked to add to it (word, request id)
    pub dict_model: BTreeMap<String, Vec<(String, i64)>>,
    /// C19: per stats path, the record kinds that must be in the file (in order)
    pub stats_model: BTreeMap<String, Vec<String>>,
    /// C19: record commands of the current server lifetime (request id, kind JSON)
    pub stats_pending: Vec<(i64, String)>,
    /// C14: lints ignored through HarperIgnoreLint, tracked through the edits of their document
    pub ignored_tracked: Vec<IgnoredTracked>,
    /// C10: files that existed before the session (other programs' files, dictionaries at the
    /// default locations): path -> content
    pub foreign_files: BTreeMap<String, Vec<u8>>,
    /// C10: paths the server itself has created in this session
    pub created_by_server: std::collections::BTreeSet<String>,
}

pub struct IgnoredTracked {
    pub uri: String,
    pub id: crate::apisim::Identity,
    /// where the lint is in the document's current text (None once its neighbourhood was edited)
    pub span: Option<(usize, usize)>,
    pub req_id: i64,
}

pub fn panic_property(job_prop: &str) -> String {
    // a crashed server can no longer have the right last word (C09); when another
    // property's check sees it, it is reported under that check's property so
    // that the check's own VIOLATION line is consistent.
    job_prop.to_string()
}

// ------------------------------------------------------------------ paths (the oracle's own resolution)

pub fn default_user_dict() -> String {
    format!("{WORLD}/home/.config/harper-ls/dictionary.txt")
}
pub fn default_file_dict_dir() -> String {
    format!("{WORLD}/home/.local/share/harper-ls/file_dictionaries")
}
pub fn default_stats() -> String {
    format!("{WORLD}/home/.local/share/harper-ls/stats.txt")
}
pub fn user_dict_path(s: &Settings) -> String {
    match &s.user_dict_path {
        Some(p) if !p.is_empty() => p.clone(),
        _ => default_user_dict(),
    }
}
pub fn file_dict_dir(s: &Settings) -> String {
    match &s.file_dict_path {
        Some(p) if !p.is_empty() => p.trim_end_matches('/').to_string(),
        _ => default_file_dict_dir(),
    }
}
pub fn stats_path(s: &Settings) -> String {
    match &s.stats_path {
        Some(p) if !p.is_empty() => p.clone(),
        _ => default_stats(),
    }
}
/// The per-file dictionary name: path components joined and terminated by '%'.
pub fn file_dict_name(path: &str) -> String {
    let mut out = String::new();
    for seg in path.split('/').filter(|s| !s.is_empty()) {
        out.push_str(seg);
        out.push('%');
    }
    out
}
pub fn file_dict_path(s: &Settings, doc_path: &str) -> String {
    format!("{}/{}", file_dict_dir(s), file_dict_name(doc_path))
}

/// Read a dictionary file the way the format is defined: one word per line.
pub fn read_words(path: &str) -> Option<Vec<String>> {
    let bytes = crate::seam::as_harness(|| std::fs::read(path)).ok()?;
    let s = String::from_utf8_lossy(&bytes).to_string();
    Some(s.lines().map(|l| l.to_string()).collect())
}

// ------------------------------------------------------------------ reference with memo

fn ref_diags(sim: &mut Sim, text: &str, lang: &str, settings: &Settings, user: &[String], file: &[String]) -> Option<Vec<Diag>> {
    let key = fnv1a(
        serde_json::to_string(&json!([text, lang, settings.linters, settings.dialect, settings.severity, settings.isolate_english, settings.ignore_link_title, user, file]))
            .unwrap()
            .as_bytes(),
    );
    if let Some(v) = sim.oracle_state.memo.get(&key) {
        sim.oracle_state.refs_memo_hits += 1;
        return v.clone();
    }
    sim.oracle_state.refs_computed += 1;
    let out = match reference::lints_for(text, lang, settings, user, file) {
        Reference::Unsupported => None,
        Reference::Lints(r) => Some(reference::lints_to_diags(&r.source, &r.lints, settings.severity_code())),
    };
    sim.oracle_state.memo.insert(key, out.clone());
    out
}

/// The words of a dictionary according to the client model (C07): every word whose add
/// command has been acknowledged.
fn dict_key(path: &str, uri: Option<&str>) -> String {
    match uri {
        None => format!("user|{path}"),
        Some(u) => format!("file|{u}|{path}"),
    }
}
fn key_path(key: &str) -> &str {
    key.rsplit('|').next().unwrap_or("")
}

fn model_words_at(sim: &Sim, path: &str, uri: Option<&str>) -> Vec<String> {
    // acknowledged words, plus un-acknowledged ones (the process died before answering) that did
    // reach the file: an in-flight add may or may not have landed, either is allowed
    let on_disk: std::collections::HashSet<String> = read_words(path).unwrap_or_default().into_iter().collect();
    let by_id: HashMap<i64, bool> = sim.client.added.iter().map(|a| (a.req_id, a.acked)).collect();
    let mut v: Vec<String> = sim
        .oracle_state
        .dict_model
        .get(&dict_key(path, uri))
        .map(|ws| ws.iter().filter(|(w, id)| by_id.get(id).map(|acked| *acked || on_disk.contains(w)).unwrap_or(false)).map(|(w, _)| w.clone()).collect())
        .unwrap_or_default();
    v.sort();
    v.dedup();
    v
}

fn current_words(sim: &Sim, doc: &Doc) -> (Vec<String>, Vec<String>) {
    let s = &sim.client.settings;
    if sim.job.prop == "C07" {
        // "current dictionaries" = what the user added, not what happens to be on disk
        let user = model_words_at(sim, &user_dict_path(s), None);
        let file = if doc.uri.starts_with("file:") { model_words_at(sim, &file_dict_path(s, &doc.path), Some(&doc.uri)) } else { vec![] };
        return (user, file);
    }
    let user = read_words(&user_dict_path(s)).unwrap_or_default();
    let file = if doc.uri.starts_with("file:") { read_words(&file_dict_path(s, &doc.path)).unwrap_or_default() } else { vec![] };
    (user, file)
}

/// Remove from a diagnostics list everything that an ignore command of this
/// document may legitimately hide (three-valued treatment: C14 decides those).
fn strip_ignorable(sim: &Sim, doc: &Doc, diags: &[Diag]) -> Vec<Diag> {
    let ign: Vec<(String, String)> = sim
        .client
        .ignored
        .iter()
        .filter(|i| i.uri == doc.uri)
        .filter_map(|i| {
            let msg = i.lint["message"].as_str()?.to_string();
            let (s, e) = (i.lint["span"]["start"].as_u64()? as usize, i.lint["span"]["end"].as_u64()? as usize);
            let chars: Vec<char> = i.text_at_ignore.chars().collect();
            if s <= e && e <= chars.len() { Some((msg, chars[s..e].iter().collect())) } else { None }
        })
        .collect();
    if ign.is_empty() {
        return diags.to_vec();
    }
    let src: Vec<char> = doc.text.chars().collect();
    diags
        .iter()
        .filter(|d| {
            let covered: Option<String> = match (reference::pos_to_index(&src, d.sl, d.sc), reference::pos_to_index(&src, d.el, d.ec)) {
                (Some(a), Some(b)) if a <= b => Some(src[a..b].iter().collect()),
                _ => None,
            };
            !ign.iter().any(|(m, t)| *m == d.message && covered.as_deref().map(|c| c == t).unwrap_or(true))
        })
        .cloned()
        .collect()
}

fn diag_view(d: &[Diag]) -> Value {
    json!(d.iter().map(|x| format!("{}:{}-{}:{} {}", x.sl, x.sc, x.el, x.ec, x.message)).collect::<Vec<_>>())
}

// ------------------------------------------------------------------ C09: the last word

fn check_last_word(sim: &mut Sim, final_: bool) {
    let prop = sim.job.prop.clone();
    let docs: Vec<Doc> = sim.client.docs.clone();
    let settings = sim.client.settings.clone();
    for doc in &docs {
        let observed_raw: Vec<Diag> = sim.client.last_publish(&doc.uri).map(|p| p.diags.clone()).unwrap_or_default();
        if !doc.open {
            if !observed_raw.is_empty() {
                sim.res.violate(Violation {
                    property: prop.clone(),
                    oracle: format!("{prop}.closed_is_empty"),
                    class: "closed_not_empty".into(),
                    detail: format!("{} is closed/deleted but its last published diagnostics are {}", doc.uri, diag_view(&observed_raw)),
                    facts: json!({"lang": doc.lang, "final": final_}),
                });
            }
            continue;
        }
        if !doc.known_to_server {
            // open in the editor, but this server process has not been told yet
            continue;
        }
        if doc.dict_tainted {
            // a disk error was injected while the server read or wrote a dictionary: until this
            // document is next updated it may be shown without a dictionary that could not be read
            sim.res.count("last_word_skipped_after_disk_error", 1);
            continue;
        }
        let (user, file) = current_words(sim, doc);
        if prop == "C07" && !(user.is_empty() && file.is_empty()) {
            // direct reading of "an added word is no longer reported as misspelt": not even the
            // reference (a fresh linter with the model's dictionaries) may flag it
            if let Reference::Lints(r) = reference::lints_for(&doc.text, &doc.lang, &settings, &user, &file) {
                for l in r.lints.iter().filter(|l| l.lint_kind.is_spelling()) {
                    let flagged: String = r.source[l.span.start..l.span.end.min(r.source.len())].iter().collect();
                    if user.contains(&flagged) || file.contains(&flagged) {
                        let lower = |w: &str| w.to_lowercase().replace(['’', '‘'], "'");
                        let all: Vec<&String> = user.iter().chain(file.iter()).collect();
                        let variant = all.iter().any(|a| **a != flagged && lower(a) == lower(&flagged));
                        // is it a word the curated dictionary lists for another dialect only?
                        let fchars: Vec<char> = flagged.chars().collect();
                        let other_dialect = {
                            use harper_core::Dictionary as _;
                            harper_core::FstDictionary::curated().get_word_metadata(&fchars).and_then(|m| m.dialect).map(|d| d != settings.dialect()).unwrap_or(false)
                        };
                        let class = if variant {
                            "case_variant_replaced"
                        } else if other_dialect {
                            "other_dialect_word_added"
                        } else {
                            "added_word_still_flagged"
                        };
                        sim.res.violate(Violation {
                            property: "C07".into(),
                            oracle: "C07.added_word_not_misspelt".into(),
                            class: class.into(),
                            detail: format!("{} ({}): '{}' is in the dictionaries the user built ({:?} / {:?}) and is reported as misspelt all the same, even by a fresh linter", doc.uri, doc.lang, flagged, user, file),
                            facts: json!({"class": class}),
                        });
                        break;
                    }
                }
            }
            sim.res.count("c07_added_words_direct_checks", 1);
        }
        let expected_raw = ref_diags(sim, &doc.text, &doc.lang, &settings, &user, &file).unwrap_or_default();
        let expected = strip_ignorable(sim, doc, &expected_raw);
        let observed = strip_ignorable(sim, doc, &observed_raw);
        if expected == observed {
            sim.res.count("last_word_checked", 1);
            if !expected.is_empty() {
                sim.res.count("last_word_checked_nonempty", 1);
            }
            continue;
        }
        // classify the mismatch: which older truth does the server's word reflect?
        let mut class = "other".to_string();
        let mut why = String::new();
        let n = doc.history.len();
        if prop == "C07" {
            // case variants among the added words: the dictionary keeps only the latest variant
            let lower = |w: &str| w.to_lowercase().replace('’', "'");
            let all: Vec<&String> = user.iter().chain(file.iter()).collect();
            let has_variants = all.iter().any(|a| all.iter().any(|b| a != b && lower(a) == lower(b)));
            if has_variants {
                let disk_user = read_words(&user_dict_path(&settings)).unwrap_or_default();
                let disk_file = read_words(&file_dict_path(&settings, &doc.path)).unwrap_or_default();
                let r = ref_diags(sim, &doc.text, &doc.lang, &settings, &disk_user, &disk_file).unwrap_or_default();
                if strip_ignorable(sim, doc, &r) == observed {
                    class = "case_variant_replaced".into();
                    why = "they are the diagnostics under the dictionary files as saved, in which a word that differs from a later added word only in letter case has been replaced by it".into();
                }
            }
        }
        if class == "other" && prop != "C07" {
            // the file on disk that holds this document's dictionary was changed through a command
            // that named *another* document (file-dictionary name collision)
            let my_path = file_dict_path(&settings, &doc.path);
            let foreign: Vec<String> = sim
                .client
                .added
                .iter()
                .filter(|a| {
                    a.file.as_deref().map(|u| u != doc.uri).unwrap_or(false)
                        && a.file.as_deref().and_then(|u| sim.client.doc(u)).map(|d| file_dict_path(&settings, &d.path) == my_path).unwrap_or(false)
                })
                .map(|a| a.word.clone())
                .collect();
            // (this file's diagnostics may date from before the last k of those additions)
            for k in 0..foreign.len() {
                let late = &foreign[k..];
                let f2: Vec<String> = file.iter().filter(|w| !late.contains(w)).cloned().collect();
                let r = ref_diags(sim, &doc.text, &doc.lang, &settings, &user, &f2).unwrap_or_default();
                if strip_ignorable(sim, doc, &r) == observed {
                    class = "file_dict_name_collision".into();
                    why = format!("they are the diagnostics from before words were added, through a command naming another file, to the dictionary file {my_path} that both files share");
                    break;
                }
            }
        }
        if class == "other" && prop == "C07" {
            // words of another document's file dictionary that is stored under the same file name
            let my_path = file_dict_path(&settings, &doc.path);
            let mut foreign: Vec<(i64, String)> = sim
                .oracle_state
                .dict_model
                .iter()
                .filter(|(k, _)| k.starts_with("file|") && key_path(k) == my_path && !k.starts_with(&format!("file|{}|", doc.uri)))
                .flat_map(|(_, ws)| ws.iter().map(|(w, id)| (*id, w.clone())))
                .collect();
            foreign.sort();
            // (the server re-lints only the file a command names: this file's diagnostics may date
            // from any earlier moment, when only the first k of those words were in the shared file)
            for k in (1..=foreign.len()).rev() {
                let mut f2 = file.clone();
                f2.extend(foreign[..k].iter().map(|(_, w)| w.clone()));
                let r = ref_diags(sim, &doc.text, &doc.lang, &settings, &user, &f2).unwrap_or_default();
                if strip_ignorable(sim, doc, &r) == observed {
                    class = "file_dict_name_collision".into();
                    why = format!("they are the diagnostics under this file's dictionary plus words added to another file's dictionary, both of which are stored as {my_path}");
                    break;
                }
            }
        }
        if class == "other" {
            if let Some(disk) = &doc.disk {
                if *disk != doc.text {
                    let r = ref_diags(sim, disk, &doc.lang, &settings, &user, &file).unwrap_or_default();
                    if strip_ignorable(sim, doc, &r) == observed {
                        class = "disk_text".into();
                        why = "they are the diagnostics of the file on disk, not of the editor's unsaved buffer".into();
                    }
                }
            }
        }
        if class == "other" {
        for (k, old) in doc.history.iter().enumerate().rev().skip(1) {
            if *old == doc.text {
                continue;
            }
            let r = ref_diags(sim, old, &doc.lang, &settings, &user, &file).unwrap_or_default();
            if strip_ignorable(sim, doc, &r) == observed {
                class = "stale_text".into();
                why = format!("they are the diagnostics of an older text (version {} of {} sent since open)", k + 1, n);
                break;
            }
        }
        }
        if class == "other" {
            // dictionary state: without the words added most recently
            let added_user: Vec<String> = sim.client.added.iter().filter(|a| a.file.is_none()).map(|a| a.word.clone()).collect();
            let added_file: Vec<String> = sim.client.added.iter().filter(|a| a.file.as_deref() == Some(doc.uri.as_str())).map(|a| a.word.clone()).collect();
            'outer: for drop_u in 0..=added_user.len().min(3) {
                for drop_f in 0..=added_file.len().min(3) {
                    if drop_u == 0 && drop_f == 0 {
                        continue;
                    }
                    let du: Vec<&String> = added_user.iter().rev().take(drop_u).collect();
                    let df: Vec<&String> = added_file.iter().rev().take(drop_f).collect();
                    let u2: Vec<String> = user.iter().filter(|w| !du.contains(w)).cloned().collect();
                    let f2: Vec<String> = file.iter().filter(|w| !df.contains(w)).cloned().collect();
                    let r = ref_diags(sim, &doc.text, &doc.lang, &settings, &u2, &f2).unwrap_or_default();
                    if strip_ignorable(sim, doc, &r) == observed {
                        class = "stale_dict".into();
                        why = format!("they are the diagnostics under the dictionaries before the last {drop_u} user / {drop_f} file word(s) were added");
                        break 'outer;
                    }
                }
            }
        }
        if class == "other" {
            let hist: Vec<Settings> = sim.client.settings_history.iter().rev().take(4).cloned().collect();
            for old in hist {
                let (u2, f2) = (read_words(&user_dict_path(&old)).unwrap_or_default(), read_words(&file_dict_path(&old, &doc.path)).unwrap_or_default());
                let r = ref_diags(sim, &doc.text, &doc.lang, &old, &u2, &f2).unwrap_or_default();
                if strip_ignorable(sim, doc, &r) == observed {
                    class = "stale_config".into();
                    why = "they are the diagnostics under an older configuration".into();
                    break;
                }
            }
        }
        if class == "other" && observed.is_empty() && sim.client.last_publish(&doc.uri).is_none() {
            class = "never_published".into();
            why = "nothing was published for this open document in this server lifetime".into();
        }
        let missing: Vec<&Diag> = expected.iter().filter(|d| !observed.contains(d)).collect();
        let extra: Vec<&Diag> = observed.iter().filter(|d| !expected.contains(d)).collect();
        sim.res.violate(Violation {
            property: prop.clone(),
            oracle: if prop == "C07" { "C07.added_words_accepted_everything_else_unchanged".into() } else { format!("{prop}.last_word") },
            class: class.clone(),
            detail: format!(
                "{} ({}): the last published diagnostics differ from those of the newest text under the current dictionaries and configuration{}. missing={} unexpected={} policy={:?}",
                doc.uri,
                doc.lang,
                if why.is_empty() { String::new() } else { format!(": {why}") },
                diag_view(&missing.into_iter().cloned().collect::<Vec<_>>()),
                diag_view(&extra.into_iter().cloned().collect::<Vec<_>>()),
                sim.cfg.policy,
            ),
            facts: json!({"lang": doc.lang, "final": final_, "policy": sim.cfg.policy, "class": class}),
        });
    }
}

// ------------------------------------------------------------------ C10: the closed world

fn norm(p: &str) -> String {
    let mut out = String::new();
    let mut prev = false;
    for c in p.chars() {
        if c == '/' {
            if !prev {
                out.push(c);
            }
            prev = true;
        } else {
            out.push(c);
            prev = false;
        }
    }
    if out.len() > 1 && out.ends_with('/') {
        out.pop();
    }
    out
}

fn parent(p: &str) -> String {
    match p.rfind('/') {
        Some(0) => "/".into(),
        Some(i) => p[..i].to_string(),
        None => String::new(),
    }
}

fn all_settings(sim: &Sim) -> Vec<Settings> {
    // every configuration the editor has had in this session; a key that is unset in one of
    // them resolves to its default location, so defaults are allowed exactly when they apply
    let mut v = sim.client.settings_history.clone();
    v.push(sim.client.settings.clone());
    v
}

/// May the language server create or modify `path`?
fn write_allowed(sim: &Sim, path: &str) -> bool {
    let p = norm(path);
    for s in all_settings(sim) {
        let (u, f, st) = (norm(&user_dict_path(&s)), norm(&file_dict_dir(&s)), norm(&stats_path(&s)));
        if p == u || p == st || parent(&p) == f {
            return true;
        }
        // directories leading to a configured file
        for target in [parent(&u), f.clone(), parent(&st)] {
            if target == p || target.starts_with(&format!("{p}/")) {
                return true;
            }
        }
    }
    false
}

fn collect_seam_log(sim: &mut Sim) {
    let (lines, overflow) = crate::seam::take_log();
    if overflow {
        sim.res.harness("seam log overflow");
    }
    sim.oracle_state.fs_log.extend(lines);
}

fn check_closed_world(sim: &mut Sim, final_: bool) {
    collect_seam_log(sim);
    let log = sim.oracle_state.fs_log.clone();
    // a temporary file that is renamed onto an allowed file counts as that file - provided the
    // server created it itself: moving somebody else's file away is a removal of that file
    let mut renamed_ok: Vec<String> = vec![];
    let mut bad: Vec<String> = vec![];
    for l in &log {
        if let Some(p) = l.strip_prefix("W ") {
            sim.oracle_state.created_by_server.insert(norm(p));
        }
        if let Some(r) = l.strip_prefix("MV ") {
            if let Some((from, to)) = r.split_once('\t') {
                let own = sim.oracle_state.created_by_server.contains(&norm(from));
                if write_allowed(sim, to) && parent(&norm(from)) == parent(&norm(to)) && own {
                    renamed_ok.push(norm(from));
                } else if !write_allowed(sim, from) && !own {
                    bad.push(format!("RM {from} (moved to {to})"));
                }
            }
        }
    }
    for l in &log {
        if l.starts_with("NET ") || l.starts_with("EX ") {
            bad.push(l.clone());
            continue;
        }
        let path = if let Some(p) = l.strip_prefix("W ") {
            p.to_string()
        } else if let Some(p) = l.strip_prefix("MK ") {
            p.to_string()
        } else if let Some(p) = l.strip_prefix("RM ") {
            p.to_string()
        } else if let Some(r) = l.strip_prefix("MV ") {
            r.split_once('\t').map(|x| x.1.to_string()).unwrap_or_default()
        } else {
            continue;
        };
        // (a temporary file is only excused once it has been renamed onto the configured file:
        // the check runs at quiescence, when every command has finished)
        if !write_allowed(sim, &path) && !renamed_ok.contains(&norm(&path)) {
            bad.push(l.clone());
        }
    }
    sim.res.count("c10_fs_events_checked", log.len() as u64);
    sim.res.count("c10_writes_seen", log.iter().filter(|l| l.starts_with("W ")).count() as u64);
    sim.oracle_state.fs_log.clear();
    if !bad.is_empty() {
        bad.sort();
        bad.dedup();
        let net = bad.iter().any(|b| b.starts_with("NET "));
        let ex = bad.iter().any(|b| b.starts_with("EX "));
        sim.res.violate(Violation {
            property: "C10".into(),
            oracle: if net { "C10.no_network".into() } else if ex { "C10.no_helper_program".into() } else { "C10.writes_confined".into() },
            class: if net { "network_call".into() } else if ex { "program_started".into() } else { "write_outside_configured".into() },
            detail: format!(
                "the language server {}: {:?} (configured: user dictionary {}, file dictionaries in {}, statistics {})",
                if net { "made a network call" } else if ex { "started another program (only the open-URL command may; what a helper does with the text is outside Harper's promise)" } else { "created or modified a path outside the configured dictionary/statistics files" },
                bad.iter().take(6).collect::<Vec<_>>(),
                user_dict_path(&sim.client.settings),
                file_dict_dir(&sim.client.settings),
                stats_path(&sim.client.settings)
            ),
            facts: json!({"events": bad.iter().take(6).map(|b| b.split(' ').next().unwrap_or("").to_string()).collect::<Vec<_>>()}),
        });
    }
    if final_ {
        // snapshot of the whole world: every file must be a document the editor wrote
        // (unmodified) or an allowed file
        let mut files = vec![];
        crate::seam::as_harness(|| walk(std::path::Path::new("w"), &mut files));
        let mut stray = vec![];
        // what was there before the session and is none of the server's business is still there, unchanged
        let foreign = sim.oracle_state.foreign_files.clone();
        for (abs, content) in &foreign {
            if write_allowed(sim, abs) {
                continue;
            }
            let rel = format!("w/{}", abs.strip_prefix(&format!("{WORLD}/")).unwrap_or(abs));
            match crate::seam::as_harness(|| std::fs::read(&rel)) {
                Ok(now) if now == *content => {}
                Ok(_) => stray.push(format!("{abs} (a file that existed before the session was modified)")),
                Err(_) => stray.push(format!("{abs} (a file that existed before the session is gone)")),
            }
        }
        sim.res.count("c10_foreign_files_checked", foreign.len() as u64);
        for f in files {
            let abs = format!("{}/{}", WORLD, f.strip_prefix("w/").unwrap_or(&f));
            if foreign.contains_key(&abs) {
                continue;
            }
            if let Some(d) = sim.client.docs.iter().find(|d| d.path == abs) {
                let on_disk = crate::seam::as_harness(|| std::fs::read_to_string(&f)).unwrap_or_default();
                if d.disk.as_deref() != Some(on_disk.as_str()) {
                    stray.push(format!("{abs} (document modified on disk)"));
                }
                continue;
            }
            if !write_allowed(sim, &abs) {
                stray.push(abs);
            }
        }
        sim.res.count("c10_snapshots", 1);
        if !stray.is_empty() {
            sim.res.violate(Violation {
                property: "C10".into(),
                oracle: "C10.snapshot".into(),
                class: "stray_file".into(),
                detail: format!("files exist after the session that are neither editor documents nor configured dictionary/statistics files: {stray:?}"),
                facts: json!({"n": stray.len()}),
            });
        }
    }
}

fn walk(dir: &std::path::Path, out: &mut Vec<String>) {
    let Ok(rd) = std::fs::read_dir(dir) else { return };
    let mut entries: Vec<_> = rd.flatten().collect();
    entries.sort_by_key(|e| e.file_name());
    for e in entries {
        let p = e.path();
        if p.is_dir() {
            walk(&p, out);
        } else {
            out.push(p.to_string_lossy().to_string());
        }
    }
}

// ------------------------------------------------------------------ C07: dictionaries

/// At most a dozen words of a set, and how many there are.
fn brief<'a>(it: impl Iterator<Item = &'a String>) -> String {
    let v: Vec<&String> = it.collect();
    if v.len() <= 12 { format!("{v:?}") } else { format!("{:?} ... ({} words)", &v[..12], v.len()) }
}

fn words_set(v: &[String]) -> std::collections::BTreeSet<String> {
    v.iter().cloned().collect()
}

/// (d)/(e): every dictionary file reloads to acked ⊆ S ⊆ acked ∪ in-flight.
fn check_dict_files(sim: &mut Sim, when: &str) {
    let keys: Vec<String> = sim.oracle_state.dict_model.keys().cloned().collect();
    for key in keys {
        let path = key_path(&key).to_string();
        let entries = sim.oracle_state.dict_model.get(&key).cloned().unwrap_or_default();
        // words that were added to *another* document's dictionary which maps to the same file
        let foreign: std::collections::BTreeSet<String> = sim
            .oracle_state
            .dict_model
            .iter()
            .filter(|(k, _)| **k != key && key_path(k) == path)
            .flat_map(|(_, ws)| ws.iter().map(|(w, _)| w.clone()))
            .collect();
        let mut acked = std::collections::BTreeSet::new();
        let mut inflight = std::collections::BTreeSet::new();
        let by_id: HashMap<i64, bool> = sim.client.added.iter().map(|a| (a.req_id, a.acked)).collect();
        for (w, id) in &entries {
            if by_id.get(id).copied().unwrap_or(false) {
                acked.insert(w.clone());
            } else {
                inflight.insert(w.clone());
            }
        }
        let on_disk = read_words(&path);
        let s = words_set(&on_disk.clone().unwrap_or_default());
        let lost: Vec<&String> = acked.iter().filter(|w| !s.contains(*w)).collect();
        let alien: Vec<&String> = s.iter().filter(|w| !acked.contains(*w) && !inflight.contains(*w)).collect();
        sim.res.count("dict_files_checked", 1);
        if !acked.is_empty() {
            sim.res.count("dict_files_checked_nonempty", 1);
        }
        if lost.is_empty() && alien.is_empty() {
            continue;
        }
        // classify: which part of the difference do the two known mechanisms explain?
        let lower = |w: &str| w.to_lowercase().replace('’', "'");
        let foreign_involved = alien.iter().any(|a| foreign.contains(*a));
        let alien_unexplained: Vec<&&String> = alien.iter().filter(|a| !foreign.contains(**a)).collect();
        let lost_unexplained: Vec<&&String> = lost.iter().filter(|l| !s.iter().any(|k| k != **l && lower(k) == lower(l))).collect();
        let fragment = alien_unexplained.iter().any(|a| acked.iter().chain(inflight.iter()).any(|w| w != **a && w.starts_with(a.as_str())));
        let class = if alien_unexplained.is_empty() && lost_unexplained.is_empty() {
            if foreign_involved { "file_dict_name_collision" } else { "case_variant_replaced" }
        } else if !lost_unexplained.is_empty() && when.starts_with("after crash") {
            "lost_by_crash"
        } else if !lost_unexplained.is_empty() && sim.res.counters.get("fs_error_injected").copied().unwrap_or(0) > 0 {
            "lost_after_disk_error"
        } else if fragment {
            "word_fragment"
        } else if !lost_unexplained.is_empty() {
            "word_lost"
        } else {
            "alien_word"
        };
        sim.res.violate(Violation {
            property: "C07".into(),
            oracle: "C07.file_reloads_to_added_set".into(),
            class: class.into(),
            detail: format!(
                "{when}: dictionary file {path} {}reloads to {}; acknowledged words {}, in flight {:?}; lost {}, never added {}",
                if on_disk.is_none() { "(missing) " } else { "" },
                brief(s.iter()),
                brief(acked.iter()),
                inflight,
                brief(lost.iter().copied()),
                brief(alien.iter().copied())
            ),
            facts: json!({"when": when.split(' ').take(2).collect::<Vec<_>>().join(" "), "class": class}),
        });
    }
}

// ------------------------------------------------------------------ C19 through the server

fn check_stats_files(sim: &mut Sim) {
    use harper_stats::{RecordKind, Stats};
    let paths: Vec<String> = sim.oracle_state.stats_model.keys().cloned().collect();
    for path in paths {
        let want = sim.oracle_state.stats_model.get(&path).cloned().unwrap_or_default();
        let bytes = crate::seam::as_harness(|| std::fs::read(&path)).unwrap_or_default();
        let got = Stats::read(&mut &bytes[..]);
        sim.res.count("stats_files_checked", 1);
        if !want.is_empty() {
            sim.res.count("stats_files_checked_nonempty", 1);
        }
        let fail = |sim: &mut Sim, class: &str, detail: String| {
            sim.res.violate(Violation {
                property: "C19".into(),
                oracle: "C19.server_log_reads_back".into(),
                class: class.into(),
                detail: format!("statistics file {path}: {detail}"),
                facts: json!({"through": "harper-ls"}),
            });
        };
        match got {
            Err(e) => fail(sim, "read_error", format!("Stats::read failed: {e}; {} bytes", bytes.len())),
            Ok(st) => {
                let want_kinds: Vec<Option<RecordKind>> = want.iter().map(|k| serde_json::from_str(k).ok()).collect();
                if st.records.len() != want_kinds.len() {
                    fail(sim, "record_count", format!("{} records in the file, {} recorded and saved by orderly shutdowns", st.records.len(), want_kinds.len()));
                } else {
                    for (i, (r, w)) in st.records.iter().zip(want_kinds.iter()).enumerate() {
                        if Some(&r.kind) != w.as_ref() {
                            fail(sim, "record_differs", format!("record {i} differs from what was recorded"));
                            break;
                        }
                        if r.when < crate::seam::EPOCH_SECS || r.when > crate::seam::EPOCH_SECS + 100_000 {
                            fail(sim, "record_time", format!("record {i} has time {} outside the simulated clock's range", r.when));
                            break;
                        }
                    }
                }
            }
        }
    }
}

// ------------------------------------------------------------------ hooks called by the simulator

pub fn on_spawn(sim: &mut Sim) {
    sim.oracle_state.ignored_tracked.clear();
    sim.oracle_state.stats_pending.clear();
}

pub fn before_kill(_sim: &mut Sim) {}

pub fn after_kill(sim: &mut Sim) {
    if sim.job.prop == "C07" {
        check_dict_files(sim, "after crash");
    }
}

fn c14_on_send(sim: &mut Sim, json: &Value) {
    let method = json["method"].as_str().unwrap_or("");
    let params = &json["params"];
    match method {
        "workspace/executeCommand" if params["command"].as_str() == Some("HarperIgnoreLint") => {
            let (Some(uri), Some(lint)) = (params["arguments"][0].as_str(), serde_json::from_value::<harper_core::linting::Lint>(params["arguments"][1].clone()).ok()) else { return };
            let Some(doc) = sim.client.doc(uri).cloned() else { return };
            if !doc.open {
                return;
            }
            let settings = sim.client.settings.clone();
            let (user, file) = current_words(sim, &doc);
            if let Reference::Lints(r) = reference::lints_for(&doc.text, &doc.lang, &settings, &user, &file) {
                if lint.span.end <= r.source.len() && r.lints.iter().any(|l| *l == lint) {
                    let id = crate::apisim::identity(&lint, &r.document);
                    sim.oracle_state.ignored_tracked.push(IgnoredTracked { uri: uri.to_string(), id, span: Some((lint.span.start, lint.span.end)), req_id: json["id"].as_i64().unwrap_or(-1) });
                    sim.res.count("c14_ignores", 1);
                }
            }
        }
        "textDocument/didChange" => {
            // the model already holds the new text; the previous one is the one before it in the history
            let uri = params["textDocument"]["uri"].as_str().unwrap_or("").to_string();
            let Some(doc) = sim.client.doc(&uri) else { return };
            let n = doc.history.len();
            if n < 2 {
                return;
            }
            let old: Vec<char> = doc.history[n - 2].chars().collect();
            let new: Vec<char> = doc.history[n - 1].chars().collect();
            let mut pre = 0;
            while pre < old.len() && pre < new.len() && old[pre] == new[pre] {
                pre += 1;
            }
            let mut suf = 0;
            while suf < old.len() - pre && suf < new.len() - pre && old[old.len() - 1 - suf] == new[new.len() - 1 - suf] {
                suf += 1;
            }
            let delta = new.len() as isize - old.len() as isize;
            let mut survived = 0;
            for t in sim.oracle_state.ignored_tracked.iter_mut().filter(|t| t.uri == uri) {
                if let Some((s, e)) = t.span {
                    let (ns, ne) = (s.saturating_sub(2), e + 2);
                    if ne <= pre {
                        survived += 1; // entirely inside the unchanged prefix
                    } else if ns >= old.len() - suf {
                        t.span = Some(((s as isize + delta) as usize, (e as isize + delta) as usize));
                        survived += 1;
                    } else {
                        t.span = None;
                    }
                }
            }
            sim.res.count("ignored_lint_survived_edit", survived);
            sim.res.count("c14_edits", 1);
        }
        "textDocument/didClose" | "textDocument/didOpen" => {
            // the server keeps ignore lists per open document: they end with it
            let uri = params["textDocument"]["uri"].as_str().unwrap_or("").to_string();
            sim.oracle_state.ignored_tracked.retain(|t| t.uri != uri);
        }
        "workspace/didChangeWatchedFiles" | "shutdown" => sim.oracle_state.ignored_tracked.clear(),
        _ => {}
    }
}

fn check_ignored_hidden(sim: &mut Sim) {
    let tracked: Vec<(String, crate::apisim::Identity, (usize, usize), i64)> =
        sim.oracle_state.ignored_tracked.iter().filter_map(|t| t.span.map(|sp| (t.uri.clone(), t.id.clone(), sp, t.req_id))).collect();
    for (uri, id, (s, e), req) in tracked {
        if sim.client.pending.contains_key(&req) {
            continue;
        }
        let Some(doc) = sim.client.doc(&uri).cloned() else { continue };
        if !doc.open || !doc.known_to_server || doc.dict_tainted {
            continue;
        }
        // a word of the lint's neighbourhood that was added to a dictionary meanwhile changes what
        // those tokens *are* (known word vs unknown word) although the text is untouched: the
        // property speaks about edits of the document, not about dictionary changes, so no demand
        let lower = |w: &str| w.to_lowercase();
        let mut near: Vec<String> = id.before.iter().chain(id.after.iter()).chain(std::iter::once(&id.flagged)).map(|w| lower(w)).collect();
        near.extend(id.flagged.split(|c: char| !c.is_alphanumeric() && c != '\'' && c != '’').filter(|w| !w.is_empty()).map(lower));
        if sim.client.added.iter().any(|a| a.req_id > req && near.contains(&lower(&a.word))) {
            sim.res.count("c14_skipped_neighbour_word_added", 1);
            continue;
        }
        let settings = sim.client.settings.clone();
        let (user, file) = current_words(sim, &doc);
        let Reference::Lints(r) = reference::lints_for(&doc.text, &doc.lang, &settings, &user, &file) else { continue };
        let Some(l) = r.lints.iter().find(|l| l.span.start == s && l.span.end == e && crate::apisim::identity(l, &r.document) == id) else { continue };
        sim.res.count("c14_checked_hidden", 1);
        let (sl, sc) = reference::index_to_pos(&r.source, s);
        let (el, ec) = reference::index_to_pos(&r.source, e);
        let published = sim.client.last_publish(&uri).map(|p| p.diags.clone()).unwrap_or_default();
        if published.iter().any(|d| (d.sl, d.sc, d.el, d.ec) == (sl, sc, el, ec) && d.message == l.message) {
            // in a code file the words of the identifiers are dictionary words: did an edit elsewhere
            // add or remove the last occurrence of a word of this lint's neighbourhood?
            // (identifiers are split at underscores and at lower-to-upper case boundaries)
            let count = |text: &str, w: &str| {
                let mut n = 0;
                let mut cur = String::new();
                let mut prev_lower = false;
                for c in text.chars().chain(std::iter::once(' ')) {
                    let boundary = !c.is_alphanumeric() || (c.is_uppercase() && prev_lower);
                    if boundary {
                        if cur.to_lowercase() == w {
                            n += 1;
                        }
                        cur.clear();
                    }
                    if c.is_alphanumeric() {
                        cur.push(c);
                    }
                    prev_lower = c.is_lowercase();
                }
                n
            };
            let then = sim.client.ignored.iter().find(|i| i.req_id == req).map(|i| i.text_at_ignore.clone()).unwrap_or_default();
            let is_code = crate::corpus::CODE_LANGS.contains(&doc.lang.as_str());
            let ident_changed = is_code && near.iter().any(|w| !w.is_empty() && count(&then, w) != count(&doc.text, w));
            sim.res.violate(Violation {
                property: "C14".into(),
                oracle: "C14.ignored_stays_hidden".into(),
                class: "ignored_lint_reported".into(),
                detail: format!(
                    "{uri} ({}): the lint '{}' on '{}' at {s}..{e} was ignored with HarperIgnoreLint; neither it nor the tokens within two characters of it were edited and the document stayed open, yet the server publishes it again",
                    doc.lang, l.message, id.flagged
                ),
                facts: json!({"through": "harper-ls", "words_added": sim.client.added.len(), "config_changes": sim.client.settings_history.len(), "identifier_changed": ident_changed}),
            });
            return;
        }
    }
}

pub fn on_send(sim: &mut Sim, json: &Value) {
    if sim.job.prop == "C14" {
        c14_on_send(sim, json);
    }
    if json["method"].as_str() == Some("workspace/executeCommand") {
        let id = json["id"].as_i64().unwrap_or(-1);
        let args = json["params"]["arguments"].as_array().cloned().unwrap_or_default();
        let s = sim.client.settings.clone();
        match json["params"]["command"].as_str().unwrap_or("") {
            "HarperAddToUserDict" => {
                if let Some(w) = args.first().and_then(|a| a.as_str()) {
                    sim.oracle_state.dict_model.entry(dict_key(&user_dict_path(&s), None)).or_default().push((w.to_string(), id));
                }
            }
            "HarperAddToFileDict" => {
                if let (Some(w), Some(u)) = (args.first().and_then(|a| a.as_str()), args.get(1).and_then(|a| a.as_str())) {
                    if let Some(d) = sim.client.doc(u) {
                        let p = file_dict_path(&s, &d.path);
                        let key = dict_key(&p, Some(&d.uri));
                        sim.oracle_state.dict_model.entry(key).or_default().push((w.to_string(), id));
                    }
                }
            }
            "HarperRecordLint" => {
                if let Some(k) = args.first().and_then(|a| a.as_str()) {
                    sim.oracle_state.stats_pending.push((id, k.to_string()));
                }
            }
            _ => {}
        }
    }
    if json["method"].as_str() == Some("shutdown") {
        // records acknowledged before the shutdown request are saved by it
        let s = sim.client.settings.clone();
        let acked: Vec<String> = sim
            .oracle_state
            .stats_pending
            .iter()
            .filter(|(id, _)| !sim.client.pending.contains_key(id) || false)
            .map(|(_, k)| k.clone())
            .collect();
        // only well-formed kinds are recorded by the server
        let acked: Vec<String> = acked.into_iter().filter(|k| serde_json::from_str::<harper_stats::RecordKind>(k).is_ok()).collect();
        if !acked.is_empty() {
            sim.res.count("stats_saved", 1);
        }
        sim.oracle_state.stats_model.entry(stats_path(&s)).or_default().extend(acked);
        sim.oracle_state.stats_pending.clear();
    }
}

pub fn on_receive(sim: &mut Sim, msg: &Value) {
    if sim.job.prop == "C08" && msg.get("method").is_none() && msg.get("id").is_some() {
        let Some(resp) = sim.client.responses.last().cloned() else { return };
        if Some(resp.id) == msg["id"].as_i64() && resp.method == "textDocument/codeAction" && Some(resp.id) != sim.oracle_state.sentinel {
            check_code_actions(sim, &resp);
        }
    }
}

// ------------------------------------------------------------------ C08: quick fixes land on the flagged text

/// Apply a TextEdit the way an editor does: replace the UTF-16 range in the buffer.
fn apply_text_edit(text: &[char], edit: &Value) -> Option<String> {
    let r = &edit["range"];
    let a = reference::pos_to_index(text, r["start"]["line"].as_u64()? as u32, r["start"]["character"].as_u64()? as u32)?;
    let b = reference::pos_to_index(text, r["end"]["line"].as_u64()? as u32, r["end"]["character"].as_u64()? as u32)?;
    if a > b {
        return None;
    }
    let mut out: String = text[..a].iter().collect();
    out.push_str(edit["newText"].as_str()?);
    out.extend(text[b..].iter());
    Some(out)
}

fn check_code_actions(sim: &mut Sim, resp: &super::client::Response) {
    use harper_core::linting::Suggestion;
    let uri = resp.params["textDocument"]["uri"].as_str().unwrap_or("").to_string();
    let Some(doc) = sim.client.doc(&uri).cloned() else { return };
    if !doc.open || !doc.known_to_server || doc.dict_tainted {
        return;
    }
    let (line, ch) = (resp.params["range"]["start"]["line"].as_u64().unwrap_or(0) as u32, resp.params["range"]["start"]["character"].as_u64().unwrap_or(0) as u32);
    let settings = sim.client.settings.clone();
    let (user, file) = current_words(sim, &doc);
    let key = fnv1a(serde_json::to_string(&json!([doc.text, doc.lang, settings, user, file])).unwrap().as_bytes());
    let r = match sim.oracle_state.full_memo.get(&key) {
        Some(r) => r.clone(),
        None => {
            let Reference::Lints(r) = reference::lints_for(&doc.text, &doc.lang, &settings, &user, &file) else { return };
            let r: std::rc::Rc<reference::RefOut> = std::rc::Rc::from(r);
            sim.oracle_state.full_memo.insert(key, r.clone());
            r
        }
    };
    let src = &r.source;
    let Some(idx) = reference::pos_to_index(src, line, ch) else { return };
    let actions = resp.result.as_array().cloned().unwrap_or_default();
    sim.res.count("c08_positions_probed", 1);
    if src[..idx.min(src.len())].iter().any(|c| c.len_utf16() == 2) {
        sim.res.count("c08_probe_after_astral", 1);
    }
    if !src[idx.min(src.len())..].contains(&'\n') && src.contains(&'\n') {
        sim.res.count("c08_probe_on_last_line_without_newline", 1);
    }
    if src.contains(&'\r') {
        sim.res.count("c08_probe_crlf", 1);
    }
    let mut fail = |sim: &mut Sim, class: &str, detail: String| {
        sim.res.violate(Violation {
            property: "C08".into(),
            oracle: "C08.code_actions_at_position".into(),
            class: class.into(),
            detail: format!("{uri} ({}) codeAction at {line}:{ch} (char {idx} of {}): {detail}", doc.lang, src.len()),
            facts: json!({"class": class, "last_line": !src[idx.min(src.len())..].contains(&'\n'), "trailing_newline": src.last() == Some(&'\n')}),
        });
    };
    for l in r.lints.iter().filter(|l| l.span.start <= idx && idx < l.span.end) {
        sim.res.count("c08_lint_position_pairs", 1);
        let (sl, sc) = reference::index_to_pos(src, l.span.start);
        let (el, ec) = reference::index_to_pos(src, l.span.end);
        let want_range = json!({"start":{"line":sl,"character":sc},"end":{"line":el,"character":ec}});
        if sl != el {
            sim.res.count("c08_probe_in_multiline_lint", 1);
        }
        // the ignore command must carry this very lint
        let want_lint = serde_json::to_value(l).unwrap();
        let has_ignore = actions.iter().any(|a| a["command"].as_str() == Some("HarperIgnoreLint") && a["arguments"][1] == want_lint && a["arguments"][0].as_str() == Some(uri.as_str()));
        if !has_ignore {
            fail(sim, "lint_not_offered", format!("the position lies inside the lint {:?} '{}' but no HarperIgnoreLint command for it was returned ({} actions returned)", l.span, l.message, actions.len()));
            continue;
        }
        for sug in &l.suggestions {
            sim.res.count("c08_suggestions_checked", 1);
            // what applying the suggestion to the lint's character span yields
            let mut want: Vec<char> = src[..l.span.start].to_vec();
            match sug {
                Suggestion::ReplaceWith(c) => want.extend(c.iter()),
                Suggestion::Remove => {}
                Suggestion::InsertAfter(c) => {
                    want.extend(src[l.span.start..l.span.end].iter());
                    want.extend(c.iter());
                }
            }
            want.extend(src[l.span.end..].iter());
            let want: String = want.into_iter().collect();
            let mut found = false;
            let mut near: Option<String> = None;
            for a in &actions {
                let Some(edits) = a["edit"]["changes"][uri.as_str()].as_array() else { continue };
                if edits.len() != 1 {
                    continue;
                }
                if edits[0]["range"] != want_range {
                    continue;
                }
                match apply_text_edit(src, &edits[0]) {
                    Some(got) if got == want => {
                        found = true;
                        break;
                    }
                    Some(got) => near = Some(got),
                    None => near = Some("(edit range is not a valid position pair)".into()),
                }
            }
            if !found {
                let class = if near.is_some() { "edit_differs" } else { "fix_not_offered" };
                fail(
                    sim,
                    class,
                    format!(
                        "no returned quick fix for lint {:?} '{}' yields what applying suggestion {:?} to the span yields; nearest result: {:?}",
                        l.span,
                        l.message,
                        sug.to_string(),
                        near.map(|n| n.chars().take(120).collect::<String>())
                    ),
                );
            }
        }
        if l.lint_kind.is_spelling() {
            let word: String = src[l.span.start..l.span.end].iter().collect();
            for cmd in ["HarperAddToUserDict", "HarperAddToFileDict"] {
                if !actions.iter().any(|a| a["command"].as_str() == Some(cmd) && a["arguments"][0].as_str() == Some(word.as_str())) {
                    fail(sim, "dict_command_differs", format!("spelling lint on '{word}' but no {cmd} command carrying exactly that word"));
                }
            }
        }
    }
}

pub fn at_quiescence(sim: &mut Sim, final_: bool) {
    // oracles over files do not need a live server
    match sim.job.prop.as_str() {
        "C10" => {
            check_closed_world(sim, final_);
            return;
        }
        "C19" => {
            if final_ {
                check_stats_files(sim);
            }
            return;
        }
        _ => {}
    }
    if !sim.server_alive_pub() || !sim.client.initialized {
        return;
    }
    match sim.job.prop.as_str() {
        "C09" | "C08" => check_last_word(sim, final_),
        "C14" => {
            check_last_word(sim, final_);
            check_ignored_hidden(sim);
        }
        "C07" => {
            check_last_word(sim, final_);
            check_dict_files(sim, if final_ { "at the end" } else { "at a quiescent point" });
        }
        _ => {}
    }
}

pub fn at_end(sim: &mut Sim) {
    // bounded liveness: everything the client asked for has been answered
    if sim.server_alive_pub() {
        let unanswered: Vec<String> = sim.client.pending.values().map(|p| format!("{}#{}", p.method, p.id)).collect();
        if !unanswered.is_empty() {
            let prop = sim.job.prop.clone();
            sim.res.violate(Violation {
                property: prop,
                oracle: "liveness.stuck".into(),
                class: "stuck".into(),
                detail: format!(
                    "STUCK: input and faults have stopped, no event is enabled, but the server never answered {:?} (server requests outstanding: {}, gates pending: {})",
                    unanswered,
                    sim.client.server_reqs.len(),
                    tokio::sim::pending().len()
                ),
                // tower-lsp queues at most 100 requests: if the editor sends more than that while a
                // handler is waiting for the editor's answer, the server stops reading its input and
                // the answer behind them is never seen
                facts: json!({
                    "unanswered": unanswered.iter().map(|u| u.split('#').next().unwrap_or("").to_string()).collect::<Vec<_>>(),
                    "stdin_unread_bytes": sim.stdin_unread(),
                    "longest_burst": sim.max_burst_len,
                    "queue_overflow": sim.stdin_unread() > 0 && sim.max_burst_len >= 100,
                }),
            });
            return;
        }
    }
    at_quiescence(sim, true);
    let s = &sim.oracle_state;
    let (a, b) = (s.refs_computed, s.refs_memo_hits);
    sim.res.count("oracle_refs_computed", a);
    sim.res.count("oracle_refs_memo_hits", b);
    let _ = BTreeMap::<u8, u8>::new();
}
