//! The editor: the second party of the protocol, the workload's state, and the
//! oracle's source of truth about buffers, versions, settings and files.

use super::reference::{Diag, Settings, parse_diags};
use serde::{Deserialize, Serialize};
use serde_json::{Value, json};
use std::collections::BTreeMap;

#[derive(Clone, Debug, Serialize, Deserialize, PartialEq)]
pub enum FsAct {
    Write { path: String, content: String },
    Delete { path: String },
    /// The user edits the user dictionary by hand: a word is appended to the file.
    AppendWord { path: String, word: String },
}

#[derive(Clone, Debug, Serialize, Deserialize, PartialEq)]
pub enum Op {
    /// Start a server process (the first entry of every script; after Kill or exit).
    Spawn,
    /// The server process dies abruptly.  `torn`: how much of a write that is in flight
    /// reaches the file ("0", "1", "half", "allbut1", "all"); None = seeded choice.
    Kill {
        #[serde(default)]
        torn: Option<String>,
    },
    /// The client sends a JSON-RPC message (after performing `pre` on the file system
    /// and adopting `set_settings` as its workspace configuration).
    Msg {
        json: Value,
        #[serde(default)]
        pre: Vec<FsAct>,
        #[serde(default)]
        set_settings: Option<Settings>,
    },
}

#[derive(Clone, Debug, Serialize, Deserialize, PartialEq)]
pub struct ScriptEntry {
    /// The client waits until the server is quiescent before this entry.
    pub wait_quiet: bool,
    pub op: Op,
}

#[derive(Clone, Debug)]
pub struct Doc {
    pub uri: String,
    pub path: String,
    pub lang: String,
    pub open: bool,
    pub text: String,
    pub version: i64,
    pub disk: Option<String>,
    /// Every text the client sent for this document since it was last opened.
    pub history: Vec<String>,
    /// Has the server been told about it in the current server lifetime?
    pub known_to_server: bool,
    /// step at which the client last sent a new text for it
    pub last_change_step: u64,
    /// a disk error was injected since the server last rebuilt this document's dictionary: what
    /// it shows for it may have been computed without a dictionary it could not read
    pub dict_tainted: bool,
}

#[derive(Clone, Debug)]
pub struct Publish {
    pub step: u64,
    pub diags: Vec<Diag>,
    pub raw: Value,
}

#[derive(Clone, Debug)]
pub struct PendingReq {
    pub id: i64,
    pub method: String,
    pub params: Value,
    pub sent_step: u64,
}

#[derive(Clone, Debug)]
pub struct ServerReq {
    pub id: Value,
    pub method: String,
    pub params: Value,
    pub seq: u64,
}

#[derive(Clone, Debug)]
pub struct AddedWord {
    pub word: String,
    /// None = user dictionary, Some(uri) = that file's dictionary
    pub file: Option<String>,
    pub req_id: i64,
    pub acked: bool,
    /// a disk error was injected while the command was being served: the word may or may not
    /// have reached the dictionary (it is never counted as acknowledged)
    pub faulted: bool,
}

#[derive(Clone, Debug)]
pub struct IgnoredRec {
    pub uri: String,
    pub lint: Value,
    pub text_at_ignore: String,
    pub req_id: i64,
    pub acked: bool,
}

#[derive(Clone, Debug)]
pub struct Response {
    pub id: i64,
    pub method: String,
    pub params: Value,
    pub result: Value,
    pub error: Value,
    pub step: u64,
    /// step at which the request was sent
    pub req_step: u64,
}

#[derive(Default)]
pub struct Client {
    pub docs: Vec<Doc>,
    pub settings: Settings,
    pub settings_history: Vec<Settings>,
    pub next_id: i64,
    pub pending: BTreeMap<i64, PendingReq>,
    pub server_reqs: Vec<ServerReq>,
    pub server_req_seq: u64,
    /// Per uri: every publishDiagnostics received in the current server lifetime.
    pub publishes: BTreeMap<String, Vec<Publish>>,
    pub responses: Vec<Response>,
    pub added: Vec<AddedWord>,
    pub ignored: Vec<IgnoredRec>,
    pub recorded_lints: Vec<(i64, String, bool)>,
    pub inbuf: Vec<u8>,
    pub initialized: bool,
    pub shutdown_acked: bool,
    pub log_messages: u64,
    pub protocol_errors: Vec<String>,
    /// the editor answers workspace/configuration and client/registerCapability with an error
    pub config_errors: bool,
    pub error_answers: u64,
    /// words the user appended to a dictionary file by hand
    pub hand_edits: u64,
    /// answers given out of request order
    pub answers_out_of_order: u64,
    pub last_answered_seq: u64,
    pub lifetime: u64,
}

pub fn frame(v: &Value) -> Vec<u8> {
    let body = serde_json::to_vec(v).unwrap();
    let mut out = format!("Content-Length: {}\r\n\r\n", body.len()).into_bytes();
    out.extend(body);
    out
}

impl Client {
    pub fn doc(&self, uri: &str) -> Option<&Doc> {
        self.docs.iter().find(|d| d.uri == uri)
    }
    pub fn doc_mut(&mut self, uri: &str) -> Option<&mut Doc> {
        self.docs.iter_mut().find(|d| d.uri == uri)
    }
    pub fn last_publish(&self, uri: &str) -> Option<&Publish> {
        self.publishes.get(uri).and_then(|v| v.last())
    }

    /// A new server process: everything tied to the connection is forgotten.
    pub fn on_spawn(&mut self) {
        self.pending.clear();
        self.server_reqs.clear();
        self.publishes.clear();
        self.inbuf.clear();
        self.initialized = false;
        self.shutdown_acked = false;
        self.lifetime += 1;
        for d in &mut self.docs {
            d.known_to_server = false;
        }
        // in-flight adds/ignores of the dead process stay un-acknowledged for ever
    }

    /// Update the model for a message the client is about to send.
    pub fn on_send(&mut self, json: &Value, set_settings: &Option<Settings>, step: u64) {
        if let Some(s) = set_settings {
            self.settings_history.push(self.settings.clone());
            self.settings = s.clone();
        }
        let method = json["method"].as_str().unwrap_or("").to_string();
        let params = &json["params"];
        if let Some(id) = json["id"].as_i64() {
            if !method.is_empty() {
                self.pending.insert(id, PendingReq { id, method: method.clone(), params: params.clone(), sent_step: step });
                self.next_id = self.next_id.max(id + 1);
            }
        }
        match method.as_str() {
            "textDocument/didOpen" => {
                let td = &params["textDocument"];
                let uri = td["uri"].as_str().unwrap_or("").to_string();
                let text = td["text"].as_str().unwrap_or("").to_string();
                let lang = td["languageId"].as_str().unwrap_or("").to_string();
                let version = td["version"].as_i64().unwrap_or(0);
                if let Some(d) = self.doc_mut(&uri) {
                    d.open = true;
                    d.lang = lang;
                    d.text = text.clone();
                    d.version = version;
                    d.history = vec![text];
                    d.known_to_server = true;
                    d.last_change_step = step;
                    d.dict_tainted = false;
                }
            }
            "textDocument/didChange" => {
                let uri = params["textDocument"]["uri"].as_str().unwrap_or("").to_string();
                let version = params["textDocument"]["version"].as_i64().unwrap_or(0);
                let text = params["contentChanges"].as_array().and_then(|a| a.last()).and_then(|c| c["text"].as_str()).map(|s| s.to_string());
                if let (Some(d), Some(text)) = (self.doc_mut(&uri), text) {
                    if d.open {
                        d.text = text.clone();
                        d.version = version;
                        d.history.push(text);
                        d.last_change_step = step;
                        d.dict_tainted = false;
                    }
                }
            }
            "textDocument/didClose" => {
                let uri = params["textDocument"]["uri"].as_str().unwrap_or("").to_string();
                if let Some(d) = self.doc_mut(&uri) {
                    d.open = false;
                    d.known_to_server = false;
                }
            }
            "workspace/didChangeWatchedFiles" => {
                if let Some(chs) = params["changes"].as_array() {
                    for ch in chs {
                        if ch["type"].as_i64() == Some(3) {
                            let pfx = ch["uri"].as_str().unwrap_or("\u{0}").to_string();
                            for d in self.docs.iter_mut() {
                                if d.uri.starts_with(&pfx) {
                                    d.open = false;
                                    d.known_to_server = false;
                                }
                            }
                        }
                    }
                }
            }
            "shutdown" => {
                // the server clears the diagnostics of every open buffer and stops serving
                for d in self.docs.iter_mut() {
                    d.known_to_server = false;
                }
            }
            "workspace/didChangeConfiguration" => {
                // (the server rebuilds every open document's dictionary)
                for d in self.docs.iter_mut() {
                    d.dict_tainted = false;
                }
            }
            "workspace/executeCommand" => {
                let id = json["id"].as_i64().unwrap_or(-1);
                let cmd = params["command"].as_str().unwrap_or("");
                let args = params["arguments"].as_array().cloned().unwrap_or_default();
                match cmd {
                    "HarperAddToUserDict" => {
                        // (the server rebuilds every open document's dictionary)
                        for d in self.docs.iter_mut() {
                            d.dict_tainted = false;
                        }
                        if let Some(w) = args.first().and_then(|a| a.as_str()) {
                            self.added.push(AddedWord { word: w.to_string(), file: None, req_id: id, acked: false, faulted: false });
                        }
                    }
                    "HarperAddToFileDict" => {
                        if let (Some(w), Some(u)) = (args.first().and_then(|a| a.as_str()), args.get(1).and_then(|a| a.as_str())) {
                            if let Some(d) = self.doc_mut(u) {
                                d.dict_tainted = false;
                            }
                            self.added.push(AddedWord { word: w.to_string(), file: Some(u.to_string()), req_id: id, acked: false, faulted: false });
                        }
                    }
                    "HarperIgnoreLint" => {
                        if let (Some(u), Some(l)) = (args.first().and_then(|a| a.as_str()), args.get(1)) {
                            let text = self.doc(u).map(|d| d.text.clone()).unwrap_or_default();
                            self.ignored.push(IgnoredRec { uri: u.to_string(), lint: l.clone(), text_at_ignore: text, req_id: id, acked: false });
                        }
                    }
                    "HarperRecordLint" => {
                        if let Some(k) = args.first().and_then(|a| a.as_str()) {
                            self.recorded_lints.push((id, k.to_string(), false));
                        }
                    }
                    _ => {}
                }
            }
            _ => {}
        }
    }

    /// Apply the file-system side of a script entry.
    pub fn apply_fs(&mut self, pre: &[FsAct]) {
        crate::seam::as_harness(|| self.apply_fs_inner(pre))
    }
    fn apply_fs_inner(&mut self, pre: &[FsAct]) {
        for a in pre {
            match a {
                FsAct::Write { path, content } => {
                    if let Some(parent) = std::path::Path::new(path).parent() {
                        let _ = std::fs::create_dir_all(parent);
                    }
                    let _ = std::fs::write(path, content);
                    for d in self.docs.iter_mut().filter(|d| &d.path == path) {
                        d.disk = Some(content.clone());
                    }
                }
                FsAct::Delete { path } => {
                    let _ = std::fs::remove_file(path);
                    for d in self.docs.iter_mut().filter(|d| &d.path == path) {
                        d.disk = None;
                    }
                }
                FsAct::AppendWord { path, word } => {
                    if let Some(parent) = std::path::Path::new(path).parent() {
                        let _ = std::fs::create_dir_all(parent);
                    }
                    let mut content = std::fs::read_to_string(path).unwrap_or_default();
                    if !content.is_empty() && !content.ends_with('\n') {
                        content.push('\n');
                    }
                    content.push_str(word);
                    content.push('\n');
                    let _ = std::fs::write(path, content);
                    // nobody tells the server: what it shows for the open documents is as old as
                    // their last update (the message this action travels with updates one of them)
                    for d in self.docs.iter_mut() {
                        d.dict_tainted = true;
                    }
                    self.hand_edits += 1;
                    let id = -1_000_000 - self.hand_edits as i64;
                    self.added.push(AddedWord { word: word.clone(), file: None, req_id: id, acked: true, faulted: false });
                }
            }
        }
    }

    /// Feed bytes read from the server's stdout; returns the messages completed.
    pub fn on_bytes(&mut self, bytes: &[u8], step: u64) -> Vec<Value> {
        self.inbuf.extend_from_slice(bytes);
        let mut out = vec![];
        loop {
            let Some(hdr_end) = find(&self.inbuf, b"\r\n\r\n") else { break };
            let hdr = String::from_utf8_lossy(&self.inbuf[..hdr_end]).to_string();
            let mut len = None;
            for line in hdr.split("\r\n") {
                if let Some(v) = line.strip_prefix("Content-Length:") {
                    len = v.trim().parse::<usize>().ok();
                }
            }
            let Some(len) = len else {
                self.protocol_errors.push(format!("bad header {hdr:?}"));
                self.inbuf.clear();
                break;
            };
            if self.inbuf.len() < hdr_end + 4 + len {
                break;
            }
            let body: Vec<u8> = self.inbuf[hdr_end + 4..hdr_end + 4 + len].to_vec();
            self.inbuf.drain(..hdr_end + 4 + len);
            match serde_json::from_slice::<Value>(&body) {
                Ok(v) => {
                    self.on_message(&v, step);
                    out.push(v);
                }
                Err(e) => self.protocol_errors.push(format!("unparsable body: {e}")),
            }
        }
        out
    }

    fn on_message(&mut self, v: &Value, step: u64) {
        let method = v["method"].as_str();
        match (method, v.get("id")) {
            (Some(m), Some(id)) if !id.is_null() => {
                // server -> client request
                self.server_req_seq += 1;
                self.server_reqs.push(ServerReq { id: id.clone(), method: m.to_string(), params: v["params"].clone(), seq: self.server_req_seq });
            }
            (Some(m), _) => match m {
                "textDocument/publishDiagnostics" => {
                    let uri = v["params"]["uri"].as_str().unwrap_or("").to_string();
                    let diags = parse_diags(&v["params"]["diagnostics"]);
                    self.publishes.entry(uri).or_default().push(Publish { step, diags, raw: v["params"]["diagnostics"].clone() });
                }
                "window/logMessage" => self.log_messages += 1,
                _ => {}
            },
            (None, Some(id)) => {
                // response to one of our requests
                if let Some(idn) = id.as_i64() {
                    if let Some(p) = self.pending.remove(&idn) {
                        if p.method == "initialize" {
                            self.initialized = true;
                        }
                        if p.method == "shutdown" {
                            self.shutdown_acked = true;
                        }
                        for a in self.added.iter_mut().filter(|a| a.req_id == idn) {
                            a.acked = !a.faulted;
                        }
                        for a in self.ignored.iter_mut().filter(|a| a.req_id == idn) {
                            a.acked = true;
                        }
                        for a in self.recorded_lints.iter_mut().filter(|a| a.0 == idn) {
                            a.2 = true;
                        }
                        self.responses.push(Response {
                            id: idn,
                            method: p.method,
                            params: p.params,
                            result: v.get("result").cloned().unwrap_or(Value::Null),
                            error: v.get("error").cloned().unwrap_or(Value::Null),
                            step,
                            req_step: p.sent_step,
                        });
                    } else {
                        self.protocol_errors.push(format!("response to unknown request id {idn}"));
                    }
                }
            }
            _ => {}
        }
    }

    /// Build the answer to the `idx`-th pending server request.
    pub fn answer(&mut self, idx: usize) -> (Value, ServerReq) {
        let req = self.server_reqs.remove(idx);
        if req.seq < self.last_answered_seq {
            self.answers_out_of_order += 1;
        }
        self.last_answered_seq = self.last_answered_seq.max(req.seq);
        if self.config_errors && matches!(req.method.as_str(), "workspace/configuration" | "client/registerCapability") {
            self.error_answers += 1;
            return (json!({"jsonrpc":"2.0","id":req.id,"error":{"code":-32601,"message":"Method not found"}}), req);
        }
        let result = match req.method.as_str() {
            "workspace/configuration" => {
                let n = req.params["items"].as_array().map(|a| a.len()).unwrap_or(1);
                Value::Array((0..n).map(|_| self.settings.to_json()).collect())
            }
            _ => Value::Null,
        };
        (json!({"jsonrpc":"2.0","id":req.id,"result":result}), req)
    }
}

fn find(hay: &[u8], needle: &[u8]) -> Option<usize> {
    hay.windows(needle.len()).position(|w| w == needle)
}
