//! The reference ("what a fresh server would say"): a stateless recomputation of
//! the diagnostics of one document from the client model's truth — text,
//! language id, settings, dictionary word sets — with fresh dictionaries, a
//! fresh rule set, a fresh document, the harness's own language table, its own
//! rule-switch resolution and its own UTF-16 position arithmetic.

use crate::git_commit_parser::GitCommitParser;
use harper_comments::CommentParser;
use harper_core::linting::{Lint, LintGroup, Linter};
use harper_core::parsers::{CollapseIdentifiers, IsolateEnglish, Markdown, MarkdownOptions, Parser, PlainEnglish};
use harper_core::{Dialect, Dictionary, Document, FstDictionary, MergedDictionary, MutableDictionary, WordMetadata};
use harper_html::HtmlParser;
use harper_literate_haskell::LiterateHaskellParser;
use harper_typst::Typst;
use serde_json::Value;
use std::collections::BTreeMap;
use std::sync::Arc;

#[derive(Clone, Debug, PartialEq, Eq, PartialOrd, Ord, Hash, serde::Serialize, serde::Deserialize)]
pub struct Diag {
    pub sl: u32,
    pub sc: u32,
    pub el: u32,
    pub ec: u32,
    pub message: String,
    pub severity: u8,
}

/// The client's `harper-ls` settings object, every key optional.
#[derive(Clone, Debug, Default, PartialEq, serde::Serialize, serde::Deserialize)]
pub struct Settings {
    pub linters: BTreeMap<String, Option<bool>>,
    pub dialect: Option<String>,
    pub severity: Option<String>,
    pub isolate_english: Option<bool>,
    pub ignore_link_title: Option<bool>,
    pub user_dict_path: Option<String>,
    pub file_dict_path: Option<String>,
    pub stats_path: Option<String>,
    pub force_stable: Option<bool>,
}

impl Settings {
    pub fn to_json(&self) -> Value {
        let mut m = serde_json::Map::new();
        if !self.linters.is_empty() {
            let mut l = serde_json::Map::new();
            for (k, v) in &self.linters {
                l.insert(k.clone(), v.map(Value::Bool).unwrap_or(Value::Null));
            }
            m.insert("linters".into(), Value::Object(l));
        }
        if let Some(d) = &self.dialect {
            m.insert("dialect".into(), Value::String(d.clone()));
        }
        if let Some(d) = &self.severity {
            m.insert("diagnosticSeverity".into(), Value::String(d.clone()));
        }
        if let Some(b) = self.isolate_english {
            m.insert("isolateEnglish".into(), Value::Bool(b));
        }
        if let Some(b) = self.ignore_link_title {
            m.insert("markdown".into(), serde_json::json!({"IgnoreLinkTitle": b}));
        }
        if let Some(p) = &self.user_dict_path {
            m.insert("userDictPath".into(), Value::String(p.clone()));
        }
        if let Some(p) = &self.file_dict_path {
            m.insert("fileDictPath".into(), Value::String(p.clone()));
        }
        if let Some(p) = &self.stats_path {
            m.insert("statsPath".into(), Value::String(p.clone()));
        }
        if let Some(b) = self.force_stable {
            m.insert("codeActions".into(), serde_json::json!({"ForceStable": b}));
        }
        serde_json::json!({"harper-ls": Value::Object(m)})
    }
    pub fn dialect(&self) -> Dialect {
        match self.dialect.as_deref() {
            Some("British") => Dialect::British,
            Some("Canadian") => Dialect::Canadian,
            Some("Australian") => Dialect::Australian,
            _ => Dialect::American,
        }
    }
    pub fn severity_code(&self) -> u8 {
        match self.severity.as_deref() {
            Some("error") => 1,
            Some("warning") => 2,
            Some("information") => 3,
            _ => 4, // hint is the default
        }
    }
    pub fn markdown_options(&self) -> MarkdownOptions {
        let mut o = MarkdownOptions::default();
        o.ignore_link_title = self.ignore_link_title.unwrap_or(false);
        o
    }
}

pub fn word_dict(words: &[String]) -> MutableDictionary {
    let mut d = MutableDictionary::new();
    d.extend_words(words.iter().map(|w| (w.chars().collect::<Vec<char>>(), WordMetadata::default())));
    d
}

/// Does a line end after the character at `i`?  The editor's rule is the LSP specification's:
/// lines end at "\n", "\r\n" and at a "\r" that no "\n" follows.  (The "\r" of "\r\n" is an
/// ordinary character of its line, in a column nobody can put a cursor behind.)
fn ends_line(source: &[char], i: usize) -> bool {
    source[i] == '\n' || (source[i] == '\r' && source.get(i + 1) != Some(&'\n'))
}

/// Independent index -> (line, UTF-16 column) conversion, columns count UTF-16 code units.
pub fn index_to_pos(source: &[char], index: usize) -> (u32, u32) {
    let mut line = 0u32;
    let mut col = 0u32;
    for i in 0..index.min(source.len()) {
        if ends_line(source, i) {
            line += 1;
            col = 0;
        } else {
            col += source[i].len_utf16() as u32;
        }
    }
    (line, col)
}

/// Independent (line, UTF-16 column) -> char index conversion; None if the
/// position does not denote a character boundary of the text.
pub fn pos_to_index(source: &[char], line: u32, col: u32) -> Option<usize> {
    let mut l = 0u32;
    let mut c = 0u32;
    for (i, ch) in source.iter().enumerate() {
        if l == line && c == col {
            return Some(i);
        }
        if ends_line(source, i) {
            if l == line {
                return None;
            }
            l += 1;
            c = 0;
        } else {
            c += ch.len_utf16() as u32;
        }
    }
    if l == line && c == col { Some(source.len()) } else { None }
}

pub struct RefOut {
    pub lints: Vec<Lint>,
    pub source: Vec<char>,
    pub document: Document,
}

pub enum Reference {
    /// The language id is not one the server handles: it drops the document.
    Unsupported,
    Lints(Box<RefOut>),
}

/// The harness's own copy of the language table.
fn is_comment_language(id: &str) -> bool {
    matches!(
        id,
        "rust"
            | "typescriptreact"
            | "typescript"
            | "python"
            | "nix"
            | "javascript"
            | "javascriptreact"
            | "go"
            | "c"
            | "cpp"
            | "cmake"
            | "ruby"
            | "swift"
            | "csharp"
            | "toml"
            | "lua"
            | "shellscript"
            | "java"
            | "haskell"
            | "php"
            | "dart"
            | "scala"
    )
}

pub fn lints_for(text: &str, lang: &str, settings: &Settings, user_words: &[String], file_words: &[String]) -> Reference {
    let dialect = settings.dialect();
    let md = settings.markdown_options();
    let mut merged = MergedDictionary::new();
    merged.add_dictionary(FstDictionary::curated());
    merged.add_dictionary(Arc::new(word_dict(user_words)));
    merged.add_dictionary(Arc::new(word_dict(file_words)));
    let source: Vec<char> = text.chars().collect();

    let mut parser: Box<dyn Parser>;
    let dict: Arc<MergedDictionary>;
    if is_comment_language(lang) {
        let ts = CommentParser::new_from_language_id(lang, md).expect("comment parser for known id");
        match ts.create_ident_dict(&source) {
            Some(ident) => {
                merged.add_dictionary(Arc::new(ident));
                dict = Arc::new(merged);
                parser = Box::new(CollapseIdentifiers::new(Box::new(ts), Box::new(dict.clone())));
            }
            None => {
                dict = Arc::new(merged);
                parser = Box::new(ts);
            }
        }
    } else {
        match lang {
            "literate haskell" | "lhaskell" => {
                let p = LiterateHaskellParser::new_markdown(md);
                match p.create_ident_dict(&source, md) {
                    Some(ident) => {
                        merged.add_dictionary(Arc::new(ident));
                        dict = Arc::new(merged);
                        parser = Box::new(CollapseIdentifiers::new(Box::new(p), Box::new(dict.clone())));
                    }
                    None => {
                        dict = Arc::new(merged);
                        parser = Box::new(p);
                    }
                }
            }
            "markdown" => {
                dict = Arc::new(merged);
                parser = Box::new(Markdown::new(md));
            }
            "git-commit" | "gitcommit" => {
                dict = Arc::new(merged);
                parser = Box::new(GitCommitParser::new_markdown(md));
            }
            "html" => {
                dict = Arc::new(merged);
                parser = Box::new(HtmlParser::default());
            }
            "mail" | "plaintext" | "text" => {
                dict = Arc::new(merged);
                parser = Box::new(PlainEnglish);
            }
            "typst" => {
                dict = Arc::new(merged);
                parser = Box::new(Typst);
            }
            _ => return Reference::Unsupported,
        }
    }
    if settings.isolate_english.unwrap_or(false) {
        parser = Box::new(IsolateEnglish::new(parser, dict.clone()));
    }
    let document = Document::new(text, &parser, &dict);

    // Rule switches resolved by the oracle itself: explicit user choice, else curated default.
    let mut group = LintGroup::new_curated(dict.clone(), dialect);
    let keys: Vec<String> = group.iter_keys().map(|k| k.to_string()).collect();
    for k in keys {
        if let Some(Some(b)) = settings.linters.get(&k) {
            group.config.set_rule_enabled(k, *b);
        }
    }
    let lints = group.lint(&document);
    Reference::Lints(Box::new(RefOut { lints, source, document }))
}

pub fn lints_to_diags(source: &[char], lints: &[Lint], severity: u8) -> Vec<Diag> {
    let mut v: Vec<Diag> = lints
        .iter()
        .map(|l| {
            let (sl, sc) = index_to_pos(source, l.span.start);
            let (el, ec) = index_to_pos(source, l.span.end);
            Diag { sl, sc, el, ec, message: l.message.clone(), severity }
        })
        .collect();
    v.sort();
    v
}

/// Parse the `diagnostics` array of a publishDiagnostics notification.
pub fn parse_diags(arr: &Value) -> Vec<Diag> {
    let mut v: Vec<Diag> = arr
        .as_array()
        .map(|a| {
            a.iter()
                .map(|d| Diag {
                    sl: d["range"]["start"]["line"].as_u64().unwrap_or(u32::MAX as u64) as u32,
                    sc: d["range"]["start"]["character"].as_u64().unwrap_or(u32::MAX as u64) as u32,
                    el: d["range"]["end"]["line"].as_u64().unwrap_or(u32::MAX as u64) as u32,
                    ec: d["range"]["end"]["character"].as_u64().unwrap_or(u32::MAX as u64) as u32,
                    message: d["message"].as_str().unwrap_or("").to_string(),
                    severity: d["severity"].as_u64().unwrap_or(0) as u8,
                })
                .collect()
        })
        .unwrap_or_default();
    v.sort();
    v
}

pub fn dict_words_of(d: &impl Dictionary) -> Vec<String> {
    let mut v: Vec<String> = d.words_iter().map(|w| w.iter().collect()).collect();
    v.sort();
    v
}
