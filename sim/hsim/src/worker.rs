//! The worker ("zygote"): initialises the expensive process-wide state once
//! (curated dictionary, curated rule set), then forks one child per job so that
//! every simulated run starts from a bit-identical process image.  Between
//! forks the parent performs no heap allocation and creates no hasher, so the
//! image — including foldhash's per-thread hasher counter — never changes.

use crate::job::{Job, RunResult, Verdict};
use crate::seam;
use std::sync::atomic::{AtomicUsize, Ordering};

const JOB_CAP: usize = 1 << 16;
static mut JOB_BUF: [u8; JOB_CAP] = [0; JOB_CAP];
static mut RELAY_BUF: [u8; 1 << 16] = [0; 1 << 16];
static JOB_LEN: AtomicUsize = AtomicUsize::new(0);

unsafe fn raw_write(fd: i32, mut p: *const u8, mut n: usize) {
    while n > 0 {
        let r = unsafe { libc::syscall(libc::SYS_write, fd, p, n) };
        if r <= 0 {
            if r < 0 && unsafe { *libc::__errno_location() } == libc::EINTR {
                continue;
            }
            return;
        }
        p = unsafe { p.add(r as usize) };
        n -= r as usize;
    }
}

fn raw_write_bytes(fd: i32, b: &[u8]) {
    unsafe { raw_write(fd, b.as_ptr(), b.len()) }
}

/// Read one line from fd 0 into JOB_BUF. Returns false on EOF.
unsafe fn read_job_line() -> bool {
    let base = std::ptr::addr_of_mut!(JOB_BUF) as *mut u8;
    let mut len = 0usize;
    loop {
        let mut c = 0u8;
        let r = unsafe { libc::syscall(libc::SYS_read, 0, &mut c as *mut u8, 1usize) };
        if r == 0 {
            return false;
        }
        if r < 0 {
            if unsafe { *libc::__errno_location() } == libc::EINTR {
                continue;
            }
            return false;
        }
        if c == b'\n' {
            JOB_LEN.store(len, Ordering::SeqCst);
            return true;
        }
        if len < JOB_CAP {
            unsafe { *base.add(len) = c };
            len += 1;
        }
    }
}

fn write_num(fd: i32, mut v: i64) {
    let mut buf = [0u8; 24];
    let mut i = buf.len();
    let neg = v < 0;
    if neg {
        v = -v;
    }
    loop {
        i -= 1;
        buf[i] = b'0' + (v % 10) as u8;
        v /= 10;
        if v == 0 {
            break;
        }
    }
    if neg {
        i -= 1;
        buf[i] = b'-';
    }
    raw_write_bytes(fd, &buf[i..]);
}

pub fn worker_main() -> ! {
    seam::enable(true);
    seam::set_time_nanos(0);
    seam::seed_random(0x0123_4567_89AB_CDEF);
    crate::engines::warmup();
    // tell the orchestrator we are ready
    raw_write_bytes(1, b"READY\n");
    loop {
        if !unsafe { read_job_line() } {
            unsafe { libc::_exit(0) };
        }
        let len = JOB_LEN.load(Ordering::SeqCst);
        let base = std::ptr::addr_of!(JOB_BUF) as *const u8;
        let line: &[u8] = unsafe { std::slice::from_raw_parts(base, len) };
        // header: 5 digits of watchdog seconds, a space, then JSON
        let mut wd: i32 = 0;
        for b in line.iter().take(5) {
            wd = wd * 10 + (*b as i32 - b'0' as i32).clamp(0, 9);
        }
        let wd_ms = wd.max(1) * 1000;
        let mut fds = [0i32; 2];
        if unsafe { libc::pipe(fds.as_mut_ptr()) } != 0 {
            raw_write_bytes(1, b"{\"worker_error\":\"pipe\"}\n");
            continue;
        }
        let pid = unsafe { libc::fork() };
        if pid < 0 {
            raw_write_bytes(1, b"{\"worker_error\":\"fork\"}\n");
            continue;
        }
        if pid == 0 {
            unsafe { libc::close(fds[0]) };
            let out = child_run(&line[6.min(line.len())..]);
            raw_write_bytes(fds[1], out.as_bytes());
            raw_write_bytes(fds[1], b"\n");
            unsafe { libc::_exit(0) };
        }
        unsafe { libc::close(fds[1]) };
        // relay the child's output, with a wall-clock watchdog
        let rbuf = std::ptr::addr_of_mut!(RELAY_BUF) as *mut u8;
        let mut last = b'\n';
        let mut any = false;
        let mut hung = false;
        loop {
            let mut pfd = libc::pollfd { fd: fds[0], events: libc::POLLIN, revents: 0 };
            let pr = unsafe { libc::poll(&mut pfd, 1, wd_ms) };
            if pr == 0 {
                hung = true;
                unsafe { libc::kill(pid, libc::SIGKILL) };
                break;
            }
            if pr < 0 {
                if unsafe { *libc::__errno_location() } == libc::EINTR {
                    continue;
                }
                break;
            }
            let r = unsafe { libc::syscall(libc::SYS_read, fds[0], rbuf, 1usize << 16) };
            if r == 0 {
                break;
            }
            if r < 0 {
                if unsafe { *libc::__errno_location() } == libc::EINTR {
                    continue;
                }
                break;
            }
            any = true;
            last = unsafe { *rbuf.add(r as usize - 1) };
            unsafe { raw_write(1, rbuf, r as usize) };
        }
        unsafe { libc::close(fds[0]) };
        let mut status = 0i32;
        unsafe { libc::waitpid(pid, &mut status, 0) };
        if hung {
            if any && last != b'\n' {
                raw_write_bytes(1, b"\n");
            }
            raw_write_bytes(1, b"{\"hang\":true,\"child\":");
            write_num(1, pid as i64);
            raw_write_bytes(1, b"}\n");
        } else if !any || last != b'\n' {
            if any {
                raw_write_bytes(1, b"\n");
            }
            raw_write_bytes(1, b"{\"crashed\":true,\"status\":");
            write_num(1, status as i64);
            raw_write_bytes(1, b",\"child\":");
            write_num(1, pid as i64);
            raw_write_bytes(1, b"}\n");
        }
    }
}

/// Runs in the forked child: everything may allocate freely here.
fn child_run(job_json: &[u8]) -> String {
    let job: Job = match serde_json::from_slice(job_json) {
        Ok(j) => j,
        Err(e) => {
            return format!("{{\"worker_error\":\"bad job: {}\"}}", e.to_string().replace('"', "'"));
        }
    };
    let pid = std::process::id();
    let dir = format!("{}/{}", job.scratch, pid);
    let _ = std::fs::create_dir_all(&dir);
    if std::env::set_current_dir(&dir).is_err() {
        return "{\"worker_error\":\"chdir\"}".to_string();
    }
    // run-specific randomness and clock
    seam::seed_random(crate::rng::mix64(job.seed ^ 0x6772_616E_646F_6D21));
    seam::set_time_nanos(0);
    let _ = seam::take_log();
    let res = std::panic::catch_unwind(std::panic::AssertUnwindSafe(|| crate::engines::run_job(&job)));
    let res = match res {
        Ok(r) => r,
        Err(p) => {
            let msg = if let Some(s) = p.downcast_ref::<&str>() {
                s.to_string()
            } else if let Some(s) = p.downcast_ref::<String>() {
                s.clone()
            } else {
                "panic".to_string()
            };
            let mut r = RunResult::new(&job);
            let loc = crate::exec::LAST_PANIC_LOCATION.lock().map(|l| l.clone()).unwrap_or_default();
            r.verdict = Verdict::Harness(format!("harness panic at {loc}: {msg}"));
            r
        }
    };
    seam::enable(false);
    let _ = std::env::set_current_dir("/");
    let _ = std::fs::remove_dir_all(&dir);
    serde_json::to_string(&res).unwrap_or_else(|e| format!("{{\"worker_error\":\"ser: {e}\"}}"))
}
