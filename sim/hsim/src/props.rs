//! Per-property check definitions: which engine batches make up the quick and
//! thorough tiers, what counts as non-trivial, which reach counters must fire.

use serde_json::{Value, json};

pub struct Batch {
    pub label: &'static str,
    pub engine: &'static str,
    pub params: Value,
    pub runs: u64,
}

pub struct PropDef {
    pub id: &'static str,
    pub level: &'static str,
    pub rule: &'static str,
    pub assumptions: Vec<&'static str>,
    /// Counters that must be non-zero over the batch, else the harness fails (exit 2).
    pub must_reach: Vec<&'static str>,
    pub real: Vec<&'static str>,
    pub stub: Vec<&'static str>,
    pub watchdog_secs: u32,
}

pub fn batches(prop: &str, tier: &str) -> Vec<Batch> {
    let q = tier == "quick";
    match prop {
        "C19" => vec![
            Batch { label: "faultfree", engine: "io-sim", params: json!({"mode":"faultfree"}), runs: if q { 4_000 } else { 100_000 } },
            Batch { label: "faulty", engine: "io-sim", params: json!({"mode":"faulty"}), runs: if q { 20_000 } else { 1_000_000 } },
            Batch { label: "enum", engine: "io-sim", params: json!({"mode":"enum"}), runs: if q { 600 } else { 30_000 } },
            Batch { label: "server", engine: "lsp-sim", params: json!({"mode":"stats"}), runs: if q { 400 } else { 20_000 } },
        ],
        "C07" => vec![
            Batch { label: "dict-sequential", engine: "lsp-sim", params: json!({"mode":"sequential","focus":"dict"}), runs: if q { 300 } else { 6_000 } },
            Batch { label: "dict-concurrent", engine: "lsp-sim", params: json!({"mode":"dict"}), runs: if q { 600 } else { 12_000 } },
            Batch { label: "crash-random", engine: "lsp-sim", params: json!({"mode":"crash"}), runs: if q { 400 } else { 18_000 } },
            Batch { label: "disk-errors", engine: "lsp-sim", params: json!({"mode":"sequential","focus":"dict","disk_errors":true}), runs: if q { 300 } else { 9_000 } },
            Batch { label: "js-import-words", engine: "api-sim", params: json!({"target":"wasm"}), runs: if q { 300 } else { 12_000 } },
            Batch { label: "crash-enum-base", engine: "lsp-sim", params: json!({"mode":"sequential","focus":"dict","enumerate_crash_points":true}), runs: if q { 60 } else { 900 } },
        ],
        "C08" => vec![
            Batch { label: "position", engine: "lsp-sim", params: json!({"mode":"sequential","focus":"position"}), runs: if q { 300 } else { 20_000 } },
        ],
        "C05" => {
            let mut v = vec![Batch { label: "history", engine: "cache-sim", params: json!({"mode":"history","universes":3}), runs: if q { 500 } else { 12_000 } }];
            if !q {
                v.push(Batch { label: "eviction", engine: "cache-sim", params: json!({"mode":"eviction","clauses":10_500,"universes":0}), runs: 48 });
                v.push(Batch { label: "eviction-words", engine: "cache-sim", params: json!({"mode":"eviction","clauses":10_500,"universes":0,"distinct_words":true}), runs: 16 });
            } else {
                v.push(Batch { label: "eviction-small", engine: "cache-sim", params: json!({"mode":"eviction","clauses":10_250}), runs: 1 });
                v.push(Batch { label: "eviction-words", engine: "cache-sim", params: json!({"mode":"eviction","clauses":10_250,"distinct_words":true}), runs: 1 });
            }
            v
        }
        "C14" => vec![
            Batch { label: "core", engine: "api-sim", params: json!({"target":"core"}), runs: if q { 1_000 } else { 40_000 } },
            Batch { label: "wasm", engine: "api-sim", params: json!({"target":"wasm"}), runs: if q { 700 } else { 25_000 } },
            Batch { label: "server", engine: "lsp-sim", params: json!({"mode":"sequential","focus":"ignore"}), runs: if q { 400 } else { 10_000 } },
        ],
        "C16" => vec![
            Batch { label: "wasm", engine: "api-sim", params: json!({"target":"wasm"}), runs: if q { 1_200 } else { 60_000 } },
        ],
        "C10" => vec![
            Batch { label: "paths-sequential", engine: "lsp-sim", params: json!({"mode":"sequential","focus":"paths"}), runs: if q { 300 } else { 10_000 } },
            Batch { label: "paths", engine: "lsp-sim", params: json!({"mode":"paths"}), runs: if q { 900 } else { 40_000 } },
            Batch { label: "js-api", engine: "api-sim", params: json!({"target":"wasm"}), runs: if q { 150 } else { 5_000 } },
            Batch { label: "library", engine: "cache-sim", params: json!({"mode":"history"}), runs: if q { 100 } else { 3_000 } },
        ],
        "C09" => vec![
            Batch { label: "sequential", engine: "lsp-sim", params: json!({"mode":"sequential"}), runs: if q { 400 } else { 10_000 } },
            Batch { label: "concurrent", engine: "lsp-sim", params: json!({"mode":"concurrent"}), runs: if q { 2_000 } else { 60_000 } },
        ],
        _ => vec![],
    }
}

pub fn def(prop: &str) -> Option<PropDef> {
    Some(match prop {
        "DEBUG" => PropDef { id: "DEBUG", level: "other", rule: "", assumptions: vec![], must_reach: vec![], real: vec![], stub: vec![], watchdog_secs: 3 },
        "C19" => PropDef {
            id: "C19",
            level: "fault_enumeration",
            rule: "One evaluation = one append session written through the fault-injecting Write and read back through the fault-injecting Read (in 'enum' mode: one (split point, fault kind) placement on a small log, all split points of the log enumerated for 4 fault kinds). A run is a history of 1-5 append sessions of generated statistics records (hostile strings, config updates, records from real lints). Non-trivial: the run wrote at least one record and (faulty/enum modes) at least one short transfer or EINTR actually fired; distinct: by the hash of (record list, every transfer-size/EINTR decision taken).",
            assumptions: vec![
                "the stream only misbehaves in ways the Read/Write contract allows (short transfers, ErrorKind::Interrupted); hard I/O errors and crashes mid-append are outside the property",
                "records are generated by the harness or taken from real lints on four fixed texts; f64 token values are those the lexer produces from decimal text",
            ],
            must_reach: vec!["short_write", "eintr_write", "short_read", "eintr_read", "split_utf8_read", "split_utf8_write", "stats_appended_to_nonempty_log", "enum_split_points", "stats_files_checked_nonempty", "c19_libc_short_writes"],
            real: vec!["harper-stats (Stats::write, Stats::read, Stats::summarize, Record, RecordKind)", "harper-core (Document, LintGroup for real records)", "serde_json", "std::io::{BufReader,BufWriter}"],
            stub: vec!["io-sim batches: the log file (an in-memory byte vector behind fault-injecting Read/Write)", "server batch: harper-ls save_stats runs real over a real tmpfs file, with short writes and EINTR injected at the libc write seam; main.rs, tokio runtime and the editor are stubs as for C09"],
            watchdog_secs: 120,
        },
        "C09" => PropDef {
            id: "C09",
            level: "exploration",
            rule: "One evaluation = one simulated editor session (1-3 documents, 6-40 client messages, up to 3 restarts) against the real harper-ls Backend under the real tower-lsp Server::serve on the simulator's executor; every delivery of client bytes, answer to workspace/configuration, completion of a file operation and drain of the server's output is a scheduler decision (policies: sequential, uniform random, latency-ordered discrete-event, PCT-style priorities). Oracle at every quiescent point and at the end: per URI the last publishDiagnostics equals the stateless reference for the client model's truth; bounded liveness (a sentinel request is answered once input stops). Non-trivial: at least two handlers (or two file operations) were in flight at the same time, or the process was restarted; for sequential runs: more than four script entries. Distinct: by the hash of the sequence of decision kinds (send/deliver/answer/gate kind/drain) (sequential runs: additionally the script).",
            assumptions: vec![
                "main.rs (argument parsing, tracing, stdio/TCP transport choice, multi-thread runtime) is outside the simulation; the server is built exactly as main.rs builds it, over simulated pipes",
                "handlers only suspend at the seams the simulator owns (client bytes, client answers, tokio::fs gates, stdout room); tokio::sync locks and tower-lsp's FuturesUnordered are woken deterministically as a consequence",
                "the editor answers workspace/configuration with its current settings, or (one session in eight) answers it and client/registerCapability with MethodNotFound for the whole session while its settings stay at the defaults; it sends well-formed messages only",
            ],
            must_reach: if crate::LS_CONCURRENCY_LEVEL > 1 {
                vec!["handlers_overlapped_2", "handlers_overlapped_3", "answers_out_of_order", "fs_ops_overlapped", "frame_fragmented", "last_word_checked_nonempty", "spawn", "sent_back_to_back", "config_answered_with_error"]
            } else {
                // main.rs serves one request at a time: handlers cannot overlap, only file operations,
                // deliveries, answers and drains interleave
                vec!["fs_ops_overlapped", "frame_fragmented", "last_word_checked_nonempty", "spawn", "sent_back_to_back", "restart_orderly", "config_answered_with_error"]
            },
            real: vec!["harper-ls: backend.rs, document_state.rs, diagnostics.rs, pos_conv.rs, dictionary_io.rs, config.rs, git_commit_parser.rs (compiled from /repo by #[path])", "tower-lsp 0.20 (LspService, Server::serve, codec, buffer_unordered, Client, pending tables)", "tokio::sync::{Mutex,RwLock}, tokio::io::{BufReader,BufWriter}", "harper-core, harper-comments, harper-html, harper-typst, harper-literate-haskell, harper-stats", "the file system (tmpfs directory private to the run)"],
            stub: vec!["harper-ls main.rs", "tokio runtime (single-threaded flag-waker executor)", "tokio::fs (shim: simulator gate, then the real std::fs operation)", "the editor (client model)", "libc clock_gettime/getrandom (simulated clock, seeded PRNG); socket calls refused"],
            watchdog_secs: 180,
        },
        "C07" => PropDef {
            id: "C07",
            level: "fault_enumeration",
            rule: "One evaluation = one simulated editor session against the real harper-ls (as for C09) whose workload is dominated by HarperAddToUserDict / HarperAddToFileDict commands (server-offered words and generated Unicode words, one add in flight at a time), edits, opens of other files, orderly restarts and, in the crash batches, process death at a scheduler-chosen event boundary with the in-flight write applied torn (0, 1, half, all-but-one, all bytes or a random prefix). Oracles: at every quiescent point the last diagnostics of every open document equal the reference computed with the client model's word sets (added words accepted, everything else unchanged, file words only in their file); every dictionary file reloads to exactly the acknowledged words (in-flight words optional); after a crash acked ⊆ file ⊆ acked ∪ in-flight. In the disk-error batch (sequential sessions) every file operation of an add-word command (open, read, mkdir, create, write, flush, rename) may instead fail with EIO/ENOSPC/EMFILE/EACCES: the word of that command becomes optional, every word acknowledged before must survive, and the diagnostics of the open documents are not judged until their next update. Non-trivial: the run acknowledged at least one add and checked a non-empty dictionary file, or crashed with a dictionary operation pending. Distinct: by decision-kind sequence hash (sequential runs: plus script).",
            assumptions: vec![
                "durability model is process death: completed system calls persist (no power loss, no reordering of completed writes)",
                "disk errors are injected only while an add-word command is the only request being served (that is where the property's durability clause applies); reads of documents and writes of statistics are not failed",
                "words are non-empty strings without whitespace or control characters; one add command is in flight at a time (other traffic may overlap)",
                "as for C09: main.rs is outside the simulation; handlers suspend only at seams the simulator owns",
            ],
            must_reach: vec!["dict_files_checked_nonempty", "last_word_checked_nonempty", "crash", "crash_with_pending_write", "crash_with_pending_create", "torn_write_partial", "restart_orderly", "gate_write", "gate_create", "fs_error_injected", "add_with_fs_error", "fs_error_on_open", "fs_error_on_read", "fs_error_on_create", "fs_error_on_write", "fs_error_on_rename"],
            real: vec!["harper-ls (all modules but main.rs), incl. dictionary_io.rs save_dict/load_dict", "tower-lsp 0.20", "tokio::sync, tokio::io::{BufReader,BufWriter}", "harper-core dictionaries (MutableDictionary, MergedDictionary, FstDictionary)", "the file system (tmpfs)"],
            stub: vec!["harper-ls main.rs", "tokio runtime", "tokio::fs (gate, then real std::fs op; at a crash a pending write lands as a seeded prefix)", "the editor (client model)", "libc clock/random"],
            watchdog_secs: 180,
        },
        "C08" => PropDef {
            id: "C08",
            level: "exploration",
            rule: "One evaluation = one codeAction request at one position inside one published diagnostic range, in a sequential simulated session (the simulator contributes the second party and the protocol here, not interleavings: the property quantifies over inputs only). Sessions open and edit documents in all language ids with texts that put astral-plane and combining characters, tabs, CRLF and lone-CR line ends, lints on the first and last line and missing trailing newlines in front of and inside lints; after every text change the editor model requests code actions at every character position inside every published range (first, last and a seeded sample of the interior for long ranges). Oracle: published ranges equal the reference lints' spans under the editor's own UTF-16 arithmetic (C09-style equality); every reference lint containing the position is offered (its HarperIgnoreLint command carries that very lint); for each of its suggestions some returned TextEdit has exactly the lint's range and, applied the way an editor applies it, yields what an independent splice of the suggestion into the character span yields; spelling lints carry add-to-dictionary commands with exactly the flagged word. Non-trivial: the run probed at least one position inside a lint with a suggestion. Distinct: by the script.",
            assumptions: vec![
                "the reference lints come from the same harper-core (fresh instances); only the position arithmetic, the span->range->edit path and the range->span lookup are independent",
                "positions inside surrogate pairs are not probed (they are not valid LSP positions)",
            ],
            must_reach: vec!["c08_positions_probed", "c08_lint_position_pairs", "c08_suggestions_checked", "last_word_checked_nonempty", "c08_probe_after_astral", "c08_probe_on_last_line_without_newline", "c08_probe_crlf", "c08_probe_in_multiline_lint"],
            real: vec!["harper-ls pos_conv.rs, diagnostics.rs, document_state.rs, backend.rs (compiled from /repo)", "tower-lsp 0.20", "harper-core and the front-end parsers"],
            stub: vec!["harper-ls main.rs", "tokio runtime", "tokio::fs scheduling (sequential policy)", "the editor (client model with its own UTF-16 line/column arithmetic)"],
            watchdog_secs: 180,
        },
        "C05" => PropDef {
            id: "C05",
            level: "exploration",
            rule: "One evaluation = one lint call in a history of 8-40 operations (lint document d in language L with linter s on thread t; set/unset a rule; import words; spawn/retire a thread) over 1-3 long-lived linters of three kinds (bare LintGroup, LintGroup driven like harper-ls's DocumentState, harper_wasm::Linter serving plain text and Markdown), living on a pool of 1-4 real threads of which a baton releases exactly one at a time (the scheduler PRNG chooses the thread of every operation), in a process whose hash universe (foldhash per-hasher seeds, getrandom stream, clock epoch) is a run parameter. Documents are assembled from clauses so that caches are hit at other offsets, in the other language, after a configuration toggle and toggle-back, and (eviction batches) after more than 10 000 distinct clauses, in one batch each with a misspelling of its own (the spell checker's word cache overflows too). Oracle after every lint: the complete result including order equals that of a freshly built linter of the same kind, dictionary, dialect and configuration on a freshly spawned thread; every history is executed in three hash universes and the per-operation result digests must agree. Non-trivial: at least two lints in the history. Distinct: by hash of (documents, operation/slot sequence).",
            assumptions: vec![
                "true parallel execution of two lint calls is not explored: Harper shares no mutable state between threads except lazily initialised statics and thread-locals; the baton runs one thread at a time",
                "a defect that also occurs in a fresh linter is invisible here (it is not a C05 matter)",
            ],
            must_reach: vec!["cache_hit_at_other_offset", "cache_hit_other_language", "cache_hit_after_config_toggle", "cache_hit_same_context", "thread_migrated", "threads_spawned", "threads_retired", "linter_rebuilt_for_dict", "config_toggles", "lru_evicted", "word_cache_evicted", "histories_compared_across_universes"],
            real: vec!["harper-core LintGroup (chunk cache, hasher), SpellCheck (word cache), Document, thread_local pattern caches, lazy_static dictionaries", "harper_wasm::Linter (native rlib)", "std::thread (real OS threads, one released at a time)"],
            stub: vec!["the thread scheduler (a baton: one thread runs at a time, chosen by the scheduler PRNG)", "process identity (hash universes inside forked children of one zygote)"],
            watchdog_secs: 600,
        },
        "C14" => PropDef {
            id: "C14",
            level: "exploration",
            rule: "One evaluation = one lint call in a history of 6-36 operations (lint, ignore the k-th current lint, edit: prepend/append/insert a paragraph or sentence, delete a character, insert a word/quote/astral character, replace a word, duplicate the text, and - one edit in three - a word inserted, replaced or removed just beyond the tokens within two characters of an ignored lint; export-clear-import of the ignore list; language switch) on a long-lived object: the core IgnoredLints+LintGroup pair driven the way harper-ls drives it, and harper_wasm::Linter. No fault or schedule dimension exists for this state (single owner, no I/O); histories against a reference model are what is simulated. Model: the set of ignored lint identities (kind, message, suggestions, priority, flagged text, texts of the tokens within two characters before and after), each tracked through the edits while its neighbourhood is untouched. Oracle after every lint: a tracked ignored lint is not reported; every lint of a fresh linter whose identity differs from all ignored ones is reported; nothing is invented; export/clear/import leaves the results unchanged. Non-trivial: at least one lint was ignored in the run. Distinct: by hash of (initial text, operation sequence).",
            assumptions: vec!["lints with an identity equal to an ignored one at another place may be hidden or shown (the property demands neither)", "the reference lints come from a fresh linter of the same library"],
            must_reach: vec!["c14_ignores", "c14_edits", "c14_roundtrips", "c14_checked_hidden", "c14_checked_reported", "ignored_lint_survived_edit", "c14_user_words_present", "c14_edits_next_to_neighbourhood"],
            real: vec!["harper-core IgnoredLints, LintContext, LintGroup, Document, parsers", "harper_wasm::Linter (native rlib): lint, ignore_lint, export/clear/import_ignored_lints", "server batch: harper-ls HarperIgnoreLint / DocumentState under lsp-sim (sequential sessions with edits, dictionary and configuration commands)"],
            stub: vec!["JS glue (JsValue methods) is not run", "the edit history and the identity model are the harness's"],
            watchdog_secs: 180,
        },
        "C16" => PropDef {
            id: "C16",
            level: "exploration",
            rule: "One evaluation = one lint call in a history of 6-36 calls on one long-lived harper_wasm::Linter (natively compiled): lint(text, Plain|Markdown), text edits, language switches, ignore_lint, import_words (flagged words of the current text and corpus words), export_words into a new linter, export/clear/import of the ignore list, set_lint_config_from_json / get_lint_config_as_json, apply_suggestion, to_json/from_json of Lint/Span/Suggestion, generate_stats_file/import_stats_file, in all four dialects. No fault or schedule dimension (single-threaded object without I/O): histories against a model. Oracles after every lint: spans inside the text, pairwise non-overlapping, problem text = characters at the span; the result equals that of a fresh Linter brought to the model's state by the shortest history (new, import_words, set config, import ignore list); after ignore_lint the same text yields the previous result minus that lint (and lints of identical identity) and nothing new; apply_suggestion equals an independent splice; round trips restore behaviour / re-serialise identically; import_stats_file(generate_stats_file()) doubles the log. Non-trivial: history longer than three calls. Distinct: by hash of (initial text, operation sequence).",
            assumptions: vec!["the JS glue (JsValue methods, wasm-bindgen marshalling) is not executed; the Rust methods behind it are", "reference = a fresh Linter of the same library"],
            must_reach: vec!["c16_lint_results_checked", "c16_nonempty_results", "c16_import_words", "c16_words_roundtrip", "c16_config_set", "c16_suggestions_applied", "c16_json_roundtrips", "c16_stats_roundtrips", "c16_ignore_checked", "c16_ignore_right_after_import", "language_switched", "c14_roundtrips"],
            real: vec!["harper_wasm::Linter and its Lint/Span/Suggestion wrappers (native rlib)", "harper-core (LintGroup, remove_overlaps, IgnoredLints, Suggestion::apply, dictionaries)", "harper-stats"],
            stub: vec!["wasm-bindgen JS glue", "the browser / Node host"],
            watchdog_secs: 180,
        },
        "C10" => PropDef {
            id: "C10",
            level: "exploration",
            rule: "One evaluation = one simulated editor session against the real harper-ls (every notification and command except HarperOpen; dictionary and statistics paths set, unset and changed during the session) in which every libc entry point that leaves the process is a seam owned by the harness: socket/connect/bind/listen/sendto/sendmsg/getaddrinfo and posix_spawn(p)/execve/execvp are recorded and refused, open/openat/creat/mkdir(at)/rename(at,at2)/unlink(at)/rmdir/link(at)/symlink(at)/truncate/ftruncate/chmod/fchmod/utimensat/futimens are recorded and forwarded. Oracle at every quiescent point and at the end: no network call and no program started (the open-URL command, the one place where Harper starts a program, is excluded by the property and not generated); every path created, opened for writing, renamed to or removed lies in the configured user-dictionary / file-dictionary / statistics set (or is a directory leading to one); a snapshot of the whole scratch world shows no other file and no modified document. Non-trivial: the server wrote at least one file during the run. Distinct: by decision-kind sequence hash (sequential runs: plus script).",
            assumptions: vec![
                "code reaches the outside only through libc (no raw syscalls in dependencies); the thorough tier cross-checks a sample against strace",
                "main.rs (the loopback listener) and the explicit HarperOpen command are excluded, as the property states",
                "only code paths the workloads reach are covered; the dependency graph as such is a static question outside this technique",
            ],
            must_reach: vec!["c10_writes_seen", "c10_snapshots", "gate_create", "spawn", "stats_saved", "c10_library_runs_checked"],
            real: vec!["harper-ls (all modules but main.rs)", "tower-lsp 0.20", "harper-core and all front-end crates", "std::fs / std::net / uuid / chrono / dirs / open crates as linked"],
            stub: vec!["harper-ls main.rs", "tokio runtime", "tokio::fs scheduling", "the editor", "libc network calls (refused), libc file calls (recorded, forwarded)"],
            watchdog_secs: 180,
        },
        _ => return None,
    })
}
