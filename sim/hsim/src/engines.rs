//! Engine dispatch (runs inside the forked child) and process warm-up.

use crate::job::{Job, RunResult};

/// Initialise every lazily-built process-wide structure once in the zygote, so
/// that forked children share it and no run pays for it.
pub fn warmup() {
    use harper_core::linting::{LintGroup, Linter};
    use harper_core::{Dialect, Document, FstDictionary};
    let dict = FstDictionary::curated();
    let mut g = LintGroup::new_curated(dict.clone(), Dialect::American);
    let doc = Document::new_markdown_default("This is an warm up of teh the linter. It has 2st place.", &dict);
    let _ = g.lint(&doc);
    let mut cfg = g.config.clone();
    cfg.fill_with_curated();
    let _ = harper_core::MutableDictionary::curated();
}

pub fn run_job(job: &Job) -> RunResult {
    match job.engine.as_str() {
        "io-sim" => crate::iosim::run(job),
        "lsp-sim" => crate::lsp::run(job),
        "api-sim" => crate::apisim::run(job),
        "cache-sim" => crate::cachesim::run(job),
        // self-test of the worker's watchdog and crash reporting (`hsim replay` of a hand-written file)
        "debug" => {
            if job.params.get("hang").and_then(|v| v.as_bool()).unwrap_or(false) {
                loop {
                    std::hint::spin_loop();
                }
            }
            if job.params.get("abort").and_then(|v| v.as_bool()).unwrap_or(false) {
                std::process::abort();
            }
            RunResult::new(job)
        }
        other => {
            let mut r = RunResult::new(job);
            r.harness(format!("unknown engine {other}"));
            r
        }
    }
}

pub const SHRINK_STAGES: usize = crate::lsp::shrink::STAGES;

/// Candidate reductions of a trace at a given stage, most aggressive first
/// (runs in the orchestrator; pure JSON manipulation).
pub fn shrink_candidates(engine: &str, trace: &serde_json::Value, stage: usize) -> Vec<serde_json::Value> {
    match engine {
        "lsp-sim" => crate::lsp::shrink::candidates(trace, stage),
        _ => vec![],
    }
}
