//! The document corpus: sentences with known Harper lints, clean sentences,
//! hostile Unicode, and wrappers that embed prose into each supported language.

use crate::rng::Rng;

thread_local! {
    /// Set by engines that want position-hostile texts (C08).
    pub static UNICODE_HEAVY: std::cell::Cell<bool> = const { std::cell::Cell::new(false) };
}

/// Sentences that Harper flags (spelling, a/an, repetition, then/than, number
/// suffixes, spacing, capitalisation, phrase corrections, ...).
pub const BAD: &[&str] = &[
    "This is an test of the system.",
    "I recieve the the package every day.",
    "She is taller then her brother.",
    "He came in 2st place today.",
    "There are  two spaces here.",
    "this sentence starts lowercase.",
    "The wrold is big and teh sky is blue.",
    "We went to an university yesterday.",
    "It costs 100$ at the store.",
    "Their going to to the park.",
    "I have an apple and an banana.",
    "The 3nd item is is broken.",
    "She said helo to the nieghbor.",
    "Its a beautifull day outside.",
    "I could of done it better.",
    "An hour and a umbrella are needed.",
    "He dont know the anwser.",
    "The quik brown fox jumps.",
    "We discused the the plan.",
    "My freind has a unique idea and a honest face.",
    // words whose spelling depends on the dialect
    "The colour of the centre is grey.",
    "We organize the color palette in the center.",
    // lints whose fix inserts text after the flagged text
    "We bought apples, bananas and cherries today.",
    "This is wrong ,right after the comma.",
    // a lint that encloses other lints
    "He said teh teh thing again.",
    // two different lints on exactly the same characters
    "Then i'm going to teh store again.",
    // links, addresses and host names in running text
    "Visit https://www.example.org/docs for teh details.",
    "Write to someone@example.com or see www.example.net for an update.",
    // a lint whose span contains a line break
    "We walked to the\nthe park together.",
    "This sentence is very long because it keeps going on and on with more and more wrods that nobody needs to read at all and it still does not stop even though the reader has lost all intrest in it by now and wants it to end.",
];

/// Sentences without lints under the curated configuration.
pub const GOOD: &[&str] = &[
    "This is a test of the system.",
    "The weather is nice today.",
    "She reads a book every evening.",
    "We walked to the park together.",
    "The cat sat on the warm windowsill.",
    "He finished the report before lunch.",
    "Rain fell softly on the roof.",
    "They opened the door and went inside.",
];

/// Fragments with astral-plane, combining and otherwise awkward characters.
pub const UNI: &[&str] = &[
    "𝒜 mathematical letter appears here.",
    "The emoji 👩‍👩‍👧‍👦 is a family and teh end.",
    "Cafe\u{301} and nai\u{308}ve are accented words.",
    "Tabs\tare\there and an error.",
    "日本語 is mixed with an English wrold.",
    "𐍈 Gothic then 😀 and recieve.",
    "Zero\u{200b}width and an apple an orange.",
    // astral-plane and combining characters inside the flagged text itself
    "The wr𝒜ld is a te𝓈t of 𝒜stral wrods.",
    "A cafe\u{301}x and a nai\u{308}vex word are here.",
    "It is an 😀 emoji and an 𝒜 letter after an article.",
];

/// Made-up or unusual words a user might add to a dictionary.
pub const WORDS: &[&str] = &[
    "wrold", "teh", "recieve", "helo", "nieghbor", "beautifull", "anwser", "quik", "discused", "freind", "harperls",
    "kubectl", "Zxqv", "GitHub", "Github", "GITHUB", "naïvité", "Zürichx", "foo-bar", "O'Reillyx", "O’Reillyx", "x86_64ish",
    "日本語x", "émigréx", "ﬁancéx", "Ωmega", "don'tx", "hello%world", "a", "Teh",
    // reduplications and other words with unusual letter statistics
    "kuku", "yoyo", "zaza", "Mimi", "bonbonx", "xx", "aaa", "zzzzzz",
    // words that look like something else to a careless reader or writer of the word list
    "#hashtagx", "Straßex", "ǅemalx", "pneumonoultramicroscopicsilicovolcanoconiosisesquipedalianismology", "ÀÉÎÕÜx",
];

/// More hostile to position arithmetic: astral and combining characters before lints.
pub fn sentence_unicode(rng: &mut Rng) -> String {
    let pre = *rng.pick(&["𝒜", "😀 ", "e\u{301}", "👩‍👩‍👧‍👦 ", "\t", "𐍈𐍈 ", "naïve ", ""]);
    let body = *rng.pick(BAD);
    let post = *rng.pick(&["", " 😀", " 𝒜𝒜", "\t"]);
    format!("{pre}{body}{post}")
}

pub fn sentence(rng: &mut Rng) -> String {
    if UNICODE_HEAVY.with(|u| u.get()) && rng.chance(1, 2) {
        return sentence_unicode(rng);
    }
    match rng.below(10) {
        0..=4 => rng.pick(BAD).to_string(),
        5..=7 => rng.pick(GOOD).to_string(),
        8 => rng.pick(UNI).to_string(),
        _ => {
            // a sentence carrying a dictionary candidate word
            format!("The {} thing is here.", rng.pick(WORDS))
        }
    }
}

pub fn paragraph(rng: &mut Rng) -> String {
    let n = rng.range(1, 3);
    let mut s = String::new();
    for i in 0..n {
        if i > 0 {
            s.push(' ');
        }
        s.push_str(&sentence(rng));
    }
    s
}

thread_local! {
    /// Set per run: now and then a document is large (tens of thousands of characters).
    pub static BIG_DOCS: std::cell::Cell<bool> = const { std::cell::Cell::new(false) };
}

pub fn paragraphs(rng: &mut Rng) -> Vec<String> {
    if BIG_DOCS.with(|b| b.get()) && rng.chance(1, 4) {
        // a long file: the same few paragraphs over and over (cheap for the clause cache,
        // large for everything that is proportional to the text)
        let base: Vec<String> = (0..4).map(|_| paragraph(rng)).collect();
        return (0..rng.range(120, 260)).map(|i| base[i % base.len()].clone()).collect();
    }
    let n = rng.range(1, 3);
    (0..n).map(|_| paragraph(rng)).collect()
}

pub const PROSE_LANGS: &[&str] = &["markdown", "plaintext", "text", "mail", "git-commit", "gitcommit", "html", "typst", "lhaskell", "literate haskell"];
pub const CODE_LANGS: &[&str] = &[
    "rust", "python", "javascript", "typescript", "go", "c", "cpp", "java", "ruby", "lua", "shellscript", "toml", "cmake", "swift", "csharp",
    "nix", "haskell", "php", "dart", "scala", "typescriptreact", "javascriptreact",
];
pub const UNSUPPORTED_LANGS: &[&str] = &["latex", "xml"];

pub fn extension(lang: &str) -> &'static str {
    match lang {
        "markdown" => "md",
        "plaintext" | "text" | "mail" => "txt",
        "git-commit" | "gitcommit" => "COMMIT_EDITMSG",
        "html" => "html",
        "typst" => "typ",
        "lhaskell" | "literate haskell" => "lhs",
        "rust" => "rs",
        "python" => "py",
        "javascript" => "js",
        "typescript" => "ts",
        "typescriptreact" => "tsx",
        "javascriptreact" => "jsx",
        "go" => "go",
        "c" => "c",
        "cpp" => "cpp",
        "java" => "java",
        "ruby" => "rb",
        "lua" => "lua",
        "shellscript" => "sh",
        "toml" => "toml",
        "cmake" => "cmake",
        "swift" => "swift",
        "csharp" => "cs",
        "nix" => "nix",
        "haskell" => "hs",
        "php" => "php",
        "dart" => "dart",
        "scala" => "scala",
        _ => "dat",
    }
}

const IDENTS: &[&str] = &["frobnicate", "qux_count", "teh", "wrold", "parseHarperls", "quik", "zed", "helo"];

fn line_comment(lang: &str) -> Option<&'static str> {
    Some(match lang {
        "rust" | "javascript" | "typescript" | "typescriptreact" | "javascriptreact" | "go" | "c" | "cpp" | "java" | "swift"
        | "csharp" | "php" | "dart" | "scala" => "//",
        "python" | "ruby" | "shellscript" | "toml" | "cmake" | "nix" => "#",
        "lua" | "haskell" => "--",
        _ => return None,
    })
}

fn code_line(lang: &str, ident: &str, k: usize) -> String {
    match lang {
        "rust" => format!("fn {ident}() -> usize {{ {k} }}"),
        "python" => format!("def {ident}():\n    return {k}"),
        "javascript" | "typescript" | "typescriptreact" | "javascriptreact" => format!("function {ident}() {{ return {k}; }}"),
        "go" => format!("func {ident}() int {{ return {k} }}"),
        "c" | "cpp" => format!("int {ident}(void) {{ return {k}; }}"),
        "java" | "csharp" => format!("class K{k} {{ int {ident}() {{ return {k}; }} }}"),
        "ruby" => format!("def {ident}\n  {k}\nend"),
        "lua" => format!("local function {ident}() return {k} end"),
        "shellscript" => format!("{ident}() {{ echo {k}; }}"),
        "toml" => format!("{ident} = {k}"),
        "cmake" => format!("set({ident} {k})"),
        "swift" => format!("func {ident}() -> Int {{ return {k} }}"),
        "nix" => format!("{{ {ident} = {k}; }}"),
        "haskell" => format!("{ident} :: Int\n{ident} = {k}"),
        "php" => format!("function {ident}() {{ return {k}; }}"),
        "dart" => format!("int {ident}() => {k};"),
        "scala" => format!("def {ident}(): Int = {k}"),
        _ => format!("{ident} {k}"),
    }
}

/// Embed prose paragraphs into a source file of language `lang`.
pub fn wrap(lang: &str, paras: &[String], rng: &mut Rng) -> String {
    // (a lone "\r" - the classic Mac line end - is a line terminator for every LSP client; only the
    // position-minded sessions use it, so that the other properties' sessions stay as they were)
    let nl = if UNICODE_HEAVY.with(|u| u.get()) && rng.chance(1, 10) {
        "\r"
    } else if rng.chance(1, 8) {
        "\r\n"
    } else {
        "\n"
    };
    let trailing = rng.chance(2, 3);
    let mut out = String::new();
    match lang {
        "markdown" | "plaintext" | "text" | "mail" | "latex" | "xml" => {
            for (i, p) in paras.iter().enumerate() {
                if i > 0 {
                    out.push_str(nl);
                    out.push_str(nl);
                }
                if lang == "markdown" && rng.chance(1, 4) {
                    out.push_str(*rng.pick(&["# ", "- ", "> ", "1. "]));
                }
                out.push_str(p);
                if lang == "markdown" && rng.chance(1, 6) {
                    out.push_str(" `inline teh code` and [a link](https://example.com/teh \"an title\").");
                }
            }
        }
        "git-commit" | "gitcommit" => {
            for (i, p) in paras.iter().enumerate() {
                if i > 0 {
                    out.push_str(nl);
                    out.push_str(nl);
                }
                out.push_str(p);
            }
            if rng.chance(1, 2) {
                out.push_str(nl);
                out.push_str("# Please enter teh commit message. Lines starting");
            }
        }
        "html" => {
            // documents in the wild start with all kinds of document type declarations
            match rng.below(4) {
                0 => {
                    out.push_str("<!DOCTYPE html>");
                    out.push_str(nl);
                }
                1 => {
                    out.push_str("<!DOCTYPE html PUBLIC \"-//W3C//DTD XHTML 1.0 Strict//EN\" \"http://www.w3.org/TR/xhtml1/DTD/xhtml1-strict.dtd\">");
                    out.push_str(nl);
                }
                _ => {}
            }
            out.push_str("<html><body>");
            out.push_str(nl);
            for p in paras {
                out.push_str("<p>");
                out.push_str(p);
                out.push_str("</p>");
                out.push_str(nl);
            }
            out.push_str("</body></html>");
        }
        "typst" => {
            out.push_str("= Heading");
            out.push_str(nl);
            for p in paras {
                out.push_str(nl);
                out.push_str(p);
                out.push_str(nl);
            }
            if rng.chance(1, 3) {
                out.push_str("$ x^2 + teh $");
            }
        }
        "lhaskell" | "literate haskell" => {
            for (i, p) in paras.iter().enumerate() {
                out.push_str(p);
                out.push_str(nl);
                out.push_str(nl);
                out.push_str(&format!("> {} = {}", rng.pick(IDENTS), i));
                out.push_str(nl);
                out.push_str(nl);
            }
        }
        _ => {
            let lc = line_comment(lang).unwrap_or("//");
            if rng.chance(1, 4) && matches!(lang, "rust" | "c" | "cpp" | "java" | "go") {
                out.push_str("/* 𝒜 héllo \"strïng\" */");
                out.push_str(nl);
            }
            for (i, p) in paras.iter().enumerate() {
                // one comment line per sentence-ish chunk keeps lines short
                let p = p.replace('\n', " ");
                for part in p.split_inclusive(". ") {
                    out.push_str(lc);
                    out.push(' ');
                    out.push_str(part.trim_end());
                    out.push_str(nl);
                }
                let ident = rng.pick(IDENTS);
                out.push_str(&code_line(lang, ident, i));
                out.push_str(nl);
                if rng.chance(1, 3) {
                    out.push_str(lc);
                    out.push_str(&format!(" The {ident} function is mentioned here."));
                    out.push_str(nl);
                }
            }
        }
    }
    if trailing {
        out.push_str(nl);
    } else {
        while out.ends_with('\n') || out.ends_with('\r') {
            out.pop();
        }
    }
    out
}

/// A small edit of a document text, as an editor would produce it.
pub fn edit(text: &str, lang: &str, rng: &mut Rng) -> String {
    let chars: Vec<char> = text.chars().collect();
    match rng.below(7) {
        0 => {
            // type a few characters at the end
            let add = rng.pick(&[" and teh", " more", "x", " An apple", ".", " wrold"]);
            format!("{text}{add}")
        }
        1 if !chars.is_empty() => {
            // delete a character somewhere
            let i = rng.below(chars.len());
            chars.iter().enumerate().filter(|(j, _)| *j != i).map(|(_, c)| *c).collect()
        }
        2 => {
            // prepend a paragraph / comment
            let p = paragraph(rng);
            let w = wrap(lang, &[p], rng);
            format!("{w}\n\n{text}")
        }
        3 => {
            // append a paragraph
            let p = paragraph(rng);
            let w = wrap(lang, &[p], rng);
            format!("{text}\n\n{w}")
        }
        4 if !chars.is_empty() => {
            // insert a word at a random position
            let i = rng.below(chars.len() + 1);
            let w: Vec<char> = rng.pick(&[" teh ", " good ", "𝒜", " an ", "\n"]).chars().collect();
            let mut v = chars.clone();
            v.splice(i..i, w);
            v.into_iter().collect()
        }
        5 => {
            // fix a known typo
            for (a, b) in [("teh", "the"), ("wrold", "world"), ("recieve", "receive"), ("an test", "a test"), ("the the", "the")] {
                if text.contains(a) {
                    return text.replacen(a, b, 1);
                }
            }
            format!("{text} ")
        }
        _ if rng.chance(1, 5) => {
            // select all, delete (or leave a blank line behind)
            rng.pick(&["", "\n", "   ", "\t\n"]).to_string()
        }
        _ => {
            // replace everything
            wrap(lang, &paragraphs(rng), rng)
        }
    }
}
