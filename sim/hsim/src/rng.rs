//! One integer decides everything: SplitMix64 streams derived from VERIF_SEED.

#[derive(Clone, Debug)]
pub struct Rng {
    s: u64,
}

pub fn mix64(mut z: u64) -> u64 {
    z = z.wrapping_add(0x9E37_79B9_7F4A_7C15);
    z = (z ^ (z >> 30)).wrapping_mul(0xBF58_476D_1CE4_E5B9);
    z = (z ^ (z >> 27)).wrapping_mul(0x94D0_49BB_1331_11EB);
    z ^ (z >> 31)
}

/// Seed of run `idx` in a batch started from `seed`.
pub fn run_seed(seed: u64, idx: u64) -> u64 {
    mix64(seed ^ mix64(idx.wrapping_mul(0xD6E8_FEB8_6659_FD93).wrapping_add(1)))
}

pub fn fnv1a(bytes: &[u8]) -> u64 {
    let mut h: u64 = 0xcbf2_9ce4_8422_2325;
    for b in bytes {
        h ^= *b as u64;
        h = h.wrapping_mul(0x0000_0100_0000_01B3);
    }
    h
}

impl Rng {
    pub fn new(seed: u64) -> Self {
        Rng { s: mix64(seed ^ 0xA076_1D64_78BD_642F) }
    }
    /// An independent stream for a named purpose.
    pub fn derive(seed: u64, label: &str) -> Self {
        Rng::new(seed ^ fnv1a(label.as_bytes()).rotate_left(17))
    }
    pub fn next_u64(&mut self) -> u64 {
        self.s = self.s.wrapping_add(0x9E37_79B9_7F4A_7C15);
        let mut z = self.s;
        z = (z ^ (z >> 30)).wrapping_mul(0xBF58_476D_1CE4_E5B9);
        z = (z ^ (z >> 27)).wrapping_mul(0x94D0_49BB_1331_11EB);
        z ^ (z >> 31)
    }
    /// Uniform in 0..n (n > 0).
    pub fn below(&mut self, n: usize) -> usize {
        debug_assert!(n > 0);
        ((self.next_u64() as u128 * n as u128) >> 64) as usize
    }
    /// Uniform in lo..=hi.
    pub fn range(&mut self, lo: usize, hi: usize) -> usize {
        lo + self.below(hi - lo + 1)
    }
    /// True with probability num/den.
    pub fn chance(&mut self, num: usize, den: usize) -> bool {
        self.below(den) < num
    }
    pub fn pick<'a, T>(&mut self, xs: &'a [T]) -> &'a T {
        &xs[self.below(xs.len())]
    }
    pub fn shuffle<T>(&mut self, xs: &mut [T]) {
        for i in (1..xs.len()).rev() {
            let j = self.below(i + 1);
            xs.swap(i, j);
        }
    }
    /// Index drawn according to integer weights (at least one weight > 0).
    pub fn weighted(&mut self, ws: &[usize]) -> usize {
        let total: usize = ws.iter().sum();
        let mut x = self.below(total.max(1));
        for (i, w) in ws.iter().enumerate() {
            if x < *w {
                return i;
            }
            x -= *w;
        }
        ws.len() - 1
    }
}
