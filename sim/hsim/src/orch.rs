//! The orchestrator side of the worker pool: spawns ASLR-less, fixed-argv,
//! fixed-environment worker processes and feeds them jobs.

use crate::job::{Job, RunResult, Verdict};
use std::io::{BufRead, BufReader, Write};
use std::os::unix::process::CommandExt;
use std::process::{Child, ChildStdin, ChildStdout, Command, Stdio};
use std::sync::{Arc, Mutex, mpsc};

pub const WORLD: &str = "/proc/self/cwd/w";

pub struct Pool {
    pub scratch: String,
    workers: usize,
    /// live worker processes, reused across `run` calls
    idle: Mutex<Vec<Worker>>,
}

struct Worker {
    child: Child,
    stdin: ChildStdin,
    stdout: BufReader<ChildStdout>,
}

fn spawn_worker(scratch: &str) -> std::io::Result<Worker> {
    let mut cmd = Command::new("/proc/self/exe");
    cmd.arg0("hsim")
        .arg("worker")
        .env_clear()
        .env("HOME", format!("{WORLD}/home"))
        .env("XDG_CONFIG_HOME", format!("{WORLD}/home/.config"))
        .env("XDG_DATA_HOME", format!("{WORLD}/home/.local/share"))
        .env("XDG_CACHE_HOME", format!("{WORLD}/home/.cache"))
        .env("TMPDIR", format!("{WORLD}/tmp"))
        .env("XDG_RUNTIME_DIR", format!("{WORLD}/run"))
        .env("XDG_STATE_HOME", format!("{WORLD}/home/.local/state"))
        .env("USER", "harper")
        .env("LOGNAME", "harper")
        .env("LANG", "C.UTF-8")
        .env("SHELL", "/bin/sh")
        .env("PATH", "/usr/bin:/bin")
        .env("RUST_LOG", "info")
        .env("HSIM_WORKER", "1")
        .current_dir(scratch)
        .stdin(Stdio::piped())
        .stdout(Stdio::piped())
        .stderr(Stdio::inherit());
    unsafe {
        cmd.pre_exec(|| {
            // ADDR_NO_RANDOMIZE: identical address-space layout in every worker
            const ADDR_NO_RANDOMIZE: libc::c_ulong = 0x0040000;
            if libc::personality(ADDR_NO_RANDOMIZE) == -1 {
                return Err(std::io::Error::last_os_error());
            }
            Ok(())
        });
    }
    let mut child = cmd.spawn()?;
    let stdin = child.stdin.take().unwrap();
    let mut stdout = BufReader::new(child.stdout.take().unwrap());
    let mut line = String::new();
    stdout.read_line(&mut line)?;
    if line.trim() != "READY" {
        return Err(std::io::Error::other(format!("worker did not become ready: {line:?}")));
    }
    Ok(Worker { child, stdin, stdout })
}

impl Pool {
    pub fn new(workers: usize) -> std::io::Result<Self> {
        let scratch = format!("/dev/shm/harper-verif.{}", std::process::id());
        let _ = std::fs::remove_dir_all(&scratch);
        std::fs::create_dir_all(&scratch)?;
        Ok(Pool { scratch, workers: workers.max(1), idle: Mutex::new(vec![]) })
    }

    /// Run all jobs; `on_result` is called (on the calling thread) as results arrive.
    /// `watchdog_secs` bounds the wall time of one run.
    pub fn run(
        &self,
        jobs: Vec<Job>,
        watchdog_secs: u32,
        mut on_result: impl FnMut(&Job, RunResult),
    ) -> Result<(), String> {
        if jobs.is_empty() {
            return Ok(());
        }
        let n = self.workers.min(jobs.len());
        let queue = Arc::new(Mutex::new(jobs.into_iter().rev().collect::<Vec<Job>>()));
        let (tx, rx) = mpsc::channel::<Result<(Job, RunResult), String>>();
        let mut err = None;
        std::thread::scope(|sc| {
            for _ in 0..n {
                let queue = queue.clone();
                let tx = tx.clone();
                let scratch = self.scratch.clone();
                let idle = &self.idle;
                sc.spawn(move || {
                    let reused = { idle.lock().unwrap().pop() };
                    let mut w = match reused {
                        Some(w) => w,
                        None => match spawn_worker(&scratch) {
                            Ok(w) => w,
                            Err(e) => {
                                let _ = tx.send(Err(format!("cannot start worker: {e}")));
                                return;
                            }
                        },
                    };
                    let mut healthy = true;
                    loop {
                        let job = { queue.lock().unwrap().pop() };
                        let Some(job) = job else { break };
                        let line = format!("{:05} {}\n", watchdog_secs.min(99_999), serde_json::to_string(&job).unwrap());
                        if line.len() >= (1 << 16) {
                            let _ = tx.send(Err("job line too long".into()));
                            break;
                        }
                        if w.stdin.write_all(line.as_bytes()).is_err() || w.stdin.flush().is_err() {
                            let _ = tx.send(Err("worker stdin closed".into()));
                            healthy = false;
                            break;
                        }
                        let mut out = String::new();
                        match w.stdout.read_line(&mut out) {
                            Ok(0) | Err(_) => {
                                let _ = tx.send(Err("worker died".into()));
                                healthy = false;
                                break;
                            }
                            Ok(_) => {}
                        }
                        let res = parse_result(&job, out.trim_end());
                        if tx.send(Ok((job, res))).is_err() {
                            break;
                        }
                    }
                    if healthy {
                        idle.lock().unwrap().push(w);
                    } else {
                        drop(w.stdin);
                        let _ = w.child.wait();
                    }
                });
            }
            drop(tx);
            for m in rx {
                match m {
                    Ok((job, res)) => on_result(&job, res),
                    Err(e) => err = Some(e),
                }
            }
        });
        match err {
            Some(e) => Err(e),
            None => Ok(()),
        }
    }
}

impl Drop for Pool {
    fn drop(&mut self) {
        for w in self.idle.lock().unwrap().drain(..) {
            let Worker { mut child, stdin, stdout } = w;
            drop(stdin);
            drop(stdout);
            let _ = child.wait();
        }
        let _ = std::fs::remove_dir_all(&self.scratch);
    }
}

fn parse_result(job: &Job, line: &str) -> RunResult {
    if let Ok(r) = serde_json::from_str::<RunResult>(line) {
        return r;
    }
    let mut r = RunResult::new(job);
    let v: serde_json::Value = serde_json::from_str(line).unwrap_or(serde_json::Value::Null);
    if v.get("hang").is_some() {
        r.verdict = Verdict::Harness(format!("HANG: run exceeded the wall-clock watchdog (seed {})", job.seed));
        r.counters.insert("hang".into(), 1);
    } else if v.get("crashed").is_some() {
        r.verdict = Verdict::Harness(format!(
            "CRASH: simulation child died with wait status {} (seed {})",
            v["status"], job.seed
        ));
        r.counters.insert("child_crash".into(), 1);
    } else {
        r.verdict = Verdict::Harness(format!("unparsable worker output: {}", &line[..line.len().min(300)]));
    }
    r
}
