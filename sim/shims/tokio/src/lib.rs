//! `tokio` as seen by the harper-ls sources that are compiled into the simulator.
//!
//! Everything is the real tokio (`tokio_real`), except `tokio::fs`, which is
//! replaced by a version whose every operation first parks on a *gate* owned by
//! the simulator and then performs the real operation with `std::fs`.
//! The simulator decides when (and in which order) gates fire, may shorten a
//! write (`poll_write` returning fewer bytes than offered is legal), and may
//! "kill the process" while gates are pending.
//!
//! The real crate is built with the same features harper-ls asks for (fs, rt,
//! rt-multi-thread, macros, io-std, io-util, net) plus time, so that anything
//! that compiles in harper-ls compiles here.  `spawn`, `spawn_blocking`, `net`
//! and `time` are the real ones: the simulator polls the server inside the
//! context of a current-thread runtime of its own and drives spawned tasks
//! after every poll (harper-ls uses none of them today).

pub use tokio_real::*;

pub mod sim;

pub mod fs {
    //! Simulated-completion `tokio::fs`.
    use crate::sim::{self, Gate, GateKind};
    use std::future::Future;
    use std::io::{self, Read, Seek, Write};
    use std::path::{Path, PathBuf};
    use std::pin::Pin;
    use std::task::{Context, Poll};
    use tokio_real::io::{AsyncRead, AsyncSeek, AsyncWrite, ReadBuf};

    async fn gated<T>(kind: GateKind, path: &Path, f: impl FnOnce() -> io::Result<T>) -> io::Result<T> {
        failed(Gate::new(kind, path.to_path_buf(), None).await)?;
        sim::note_op(kind, path);
        f()
    }

    /// An injected failure: the operation is not attempted.
    fn failed(g: Option<i32>) -> io::Result<()> {
        match g {
            Some(errno) => Err(io::Error::from_raw_os_error(errno)),
            None => Ok(()),
        }
    }

    pub async fn create_dir_all(path: impl AsRef<Path>) -> io::Result<()> {
        let p = path.as_ref();
        gated(GateKind::Mkdir, p, || std::fs::create_dir_all(p)).await
    }
    pub async fn create_dir(path: impl AsRef<Path>) -> io::Result<()> {
        let p = path.as_ref();
        gated(GateKind::Mkdir, p, || std::fs::create_dir(p)).await
    }
    pub async fn read_to_string(path: impl AsRef<Path>) -> io::Result<String> {
        let p = path.as_ref();
        gated(GateKind::ReadFile, p, || std::fs::read_to_string(p)).await
    }
    pub async fn read(path: impl AsRef<Path>) -> io::Result<Vec<u8>> {
        let p = path.as_ref();
        gated(GateKind::ReadFile, p, || std::fs::read(p)).await
    }
    pub async fn write(path: impl AsRef<Path>, contents: impl AsRef<[u8]>) -> io::Result<()> {
        // create+truncate, then the data: two separately schedulable steps, as
        // in the real implementation (open(O_TRUNC) and write are two syscalls).
        let p = path.as_ref();
        let mut f = File::create(p).await?;
        use tokio_real::io::AsyncWriteExt;
        f.write_all(contents.as_ref()).await?;
        f.flush().await
    }
    pub async fn rename(from: impl AsRef<Path>, to: impl AsRef<Path>) -> io::Result<()> {
        let (a, b) = (from.as_ref(), to.as_ref());
        failed(Gate::new(GateKind::Rename, b.to_path_buf(), None).await)?;
        sim::note_op(GateKind::Rename, b);
        sim::note_op(GateKind::Remove, a);
        std::fs::rename(a, b)
    }
    pub async fn remove_file(path: impl AsRef<Path>) -> io::Result<()> {
        let p = path.as_ref();
        gated(GateKind::Remove, p, || std::fs::remove_file(p)).await
    }
    pub async fn remove_dir_all(path: impl AsRef<Path>) -> io::Result<()> {
        let p = path.as_ref();
        gated(GateKind::Remove, p, || std::fs::remove_dir_all(p)).await
    }
    pub async fn remove_dir(path: impl AsRef<Path>) -> io::Result<()> {
        let p = path.as_ref();
        gated(GateKind::Remove, p, || std::fs::remove_dir(p)).await
    }
    pub async fn metadata(path: impl AsRef<Path>) -> io::Result<std::fs::Metadata> {
        let p = path.as_ref();
        gated(GateKind::Stat, p, || std::fs::metadata(p)).await
    }
    pub async fn try_exists(path: impl AsRef<Path>) -> io::Result<bool> {
        let p = path.as_ref();
        gated(GateKind::Stat, p, || p.try_exists()).await
    }
    pub async fn copy(from: impl AsRef<Path>, to: impl AsRef<Path>) -> io::Result<u64> {
        let (a, b) = (from.as_ref(), to.as_ref());
        failed(Gate::new(GateKind::Create, b.to_path_buf(), None).await)?;
        sim::note_op(GateKind::Create, b);
        std::fs::copy(a, b)
    }
    pub async fn canonicalize(path: impl AsRef<Path>) -> io::Result<PathBuf> {
        let p = path.as_ref();
        gated(GateKind::Stat, p, || std::fs::canonicalize(p)).await
    }

    pub async fn symlink_metadata(path: impl AsRef<Path>) -> io::Result<std::fs::Metadata> {
        let p = path.as_ref();
        gated(GateKind::Stat, p, || std::fs::symlink_metadata(p)).await
    }
    pub async fn read_link(path: impl AsRef<Path>) -> io::Result<PathBuf> {
        let p = path.as_ref();
        gated(GateKind::Stat, p, || std::fs::read_link(p)).await
    }
    pub async fn hard_link(original: impl AsRef<Path>, link: impl AsRef<Path>) -> io::Result<()> {
        let (a, b) = (original.as_ref(), link.as_ref());
        gated(GateKind::Create, b, || std::fs::hard_link(a, b)).await
    }
    pub async fn symlink(original: impl AsRef<Path>, link: impl AsRef<Path>) -> io::Result<()> {
        let (a, b) = (original.as_ref(), link.as_ref());
        gated(GateKind::Create, b, || std::os::unix::fs::symlink(a, b)).await
    }
    pub async fn set_permissions(path: impl AsRef<Path>, perm: std::fs::Permissions) -> io::Result<()> {
        let p = path.as_ref();
        gated(GateKind::Write, p, || std::fs::set_permissions(p, perm)).await
    }

    /// Directory listing: the whole directory is read when the gate fires.
    pub struct ReadDir {
        entries: std::collections::VecDeque<io::Result<std::fs::DirEntry>>,
    }
    pub struct DirEntry(std::fs::DirEntry);
    impl DirEntry {
        pub fn path(&self) -> PathBuf {
            self.0.path()
        }
        pub fn file_name(&self) -> std::ffi::OsString {
            self.0.file_name()
        }
        pub async fn metadata(&self) -> io::Result<std::fs::Metadata> {
            self.0.metadata()
        }
        pub async fn file_type(&self) -> io::Result<std::fs::FileType> {
            self.0.file_type()
        }
    }
    impl ReadDir {
        pub async fn next_entry(&mut self) -> io::Result<Option<DirEntry>> {
            match self.entries.pop_front() {
                Some(Ok(e)) => Ok(Some(DirEntry(e))),
                Some(Err(e)) => Err(e),
                None => Ok(None),
            }
        }
    }
    pub async fn read_dir(path: impl AsRef<Path>) -> io::Result<ReadDir> {
        let p = path.as_ref();
        gated(GateKind::Stat, p, || {
            let mut v: Vec<io::Result<std::fs::DirEntry>> = std::fs::read_dir(p)?.collect();
            // directory order is not part of anybody's contract: make it the same in every run
            v.sort_by_key(|e| e.as_ref().map(|e| e.file_name()).unwrap_or_default());
            Ok(ReadDir { entries: v.into() })
        })
        .await
    }

    #[derive(Debug, Default)]
    pub struct DirBuilder {
        recursive: bool,
        mode: Option<u32>,
    }
    impl DirBuilder {
        pub fn new() -> Self {
            Self::default()
        }
        pub fn recursive(&mut self, recursive: bool) -> &mut Self {
            self.recursive = recursive;
            self
        }
        pub fn mode(&mut self, mode: u32) -> &mut Self {
            self.mode = Some(mode);
            self
        }
        pub async fn create(&self, path: impl AsRef<Path>) -> io::Result<()> {
            let p = path.as_ref();
            let mut b = std::fs::DirBuilder::new();
            b.recursive(self.recursive);
            if let Some(m) = self.mode {
                use std::os::unix::fs::DirBuilderExt;
                b.mode(m);
            }
            gated(GateKind::Mkdir, p, || b.create(p)).await
        }
    }

    #[derive(Clone, Debug, Default)]
    pub struct OpenOptions {
        read: bool,
        write: bool,
        append: bool,
        truncate: bool,
        create: bool,
        create_new: bool,
        mode: Option<u32>,
        custom_flags: Option<i32>,
    }
    impl OpenOptions {
        pub fn mode(&mut self, mode: u32) -> &mut Self {
            self.mode = Some(mode);
            self
        }
        pub fn custom_flags(&mut self, flags: i32) -> &mut Self {
            self.custom_flags = Some(flags);
            self
        }
        pub fn new() -> Self {
            Self::default()
        }
        pub fn read(&mut self, v: bool) -> &mut Self {
            self.read = v;
            self
        }
        pub fn write(&mut self, v: bool) -> &mut Self {
            self.write = v;
            self
        }
        pub fn append(&mut self, v: bool) -> &mut Self {
            self.append = v;
            self
        }
        pub fn truncate(&mut self, v: bool) -> &mut Self {
            self.truncate = v;
            self
        }
        pub fn create(&mut self, v: bool) -> &mut Self {
            self.create = v;
            self
        }
        pub fn create_new(&mut self, v: bool) -> &mut Self {
            self.create_new = v;
            self
        }
        pub async fn open(&self, path: impl AsRef<Path>) -> io::Result<File> {
            let p = path.as_ref();
            let writes = self.write || self.append || self.create || self.create_new || self.truncate;
            let kind = if writes { GateKind::Create } else { GateKind::Open };
            failed(Gate::new(kind, p.to_path_buf(), None).await)?;
            sim::note_op(kind, p);
            let mut o = std::fs::OpenOptions::new();
            o.read(self.read).write(self.write).append(self.append).truncate(self.truncate).create(self.create).create_new(self.create_new);
            {
                use std::os::unix::fs::OpenOptionsExt;
                if let Some(m) = self.mode {
                    o.mode(m);
                }
                if let Some(fl) = self.custom_flags {
                    o.custom_flags(fl);
                }
            }
            let f = o.open(p)?;
            Ok(File::from_parts(f, p.to_path_buf()))
        }
    }

    /// A file whose reads and writes complete when the simulator says so.
    ///
    /// Writes behave like tokio's: `poll_write` accepts the bytes at once and the write is
    /// carried out "in the background" (here: when the simulator fires its gate); its outcome
    /// is reported by the next write or flush.  A file dropped without a flush leaves its last
    /// write in flight.
    pub struct File {
        inner: std::sync::Arc<std::fs::File>,
        path: PathBuf,
        gate: Option<Gate>,
        inflight: Option<u64>,
        last_write_err: Option<i32>,
    }

    impl File {
        fn from_parts(inner: std::fs::File, path: PathBuf) -> Self {
            Self { inner: std::sync::Arc::new(inner), path, gate: None, inflight: None, last_write_err: None }
        }
        pub async fn open(path: impl AsRef<Path>) -> io::Result<File> {
            let p = path.as_ref();
            failed(Gate::new(GateKind::Open, p.to_path_buf(), None).await)?;
            sim::note_op(GateKind::Open, p);
            Ok(File::from_parts(std::fs::File::open(p)?, p.to_path_buf()))
        }
        pub async fn create(path: impl AsRef<Path>) -> io::Result<File> {
            let p = path.as_ref();
            failed(Gate::new(GateKind::Create, p.to_path_buf(), None).await)?;
            sim::note_op(GateKind::Create, p);
            Ok(File::from_parts(std::fs::File::create(p)?, p.to_path_buf()))
        }
        pub fn options() -> OpenOptions {
            OpenOptions::new()
        }
        pub async fn create_new(path: impl AsRef<Path>) -> io::Result<File> {
            let p = path.as_ref();
            failed(Gate::new(GateKind::Create, p.to_path_buf(), None).await)?;
            sim::note_op(GateKind::Create, p);
            Ok(File::from_parts(std::fs::File::create_new(p)?, p.to_path_buf()))
        }
        pub fn from_std(std: std::fs::File) -> File {
            File::from_parts(std, PathBuf::from("(from_std)"))
        }
        pub async fn into_std(mut self) -> std::fs::File {
            std::future::poll_fn(|cx| self.poll_inflight(cx)).await;
            self.inner.try_clone().expect("dup")
        }
        pub async fn try_clone(&self) -> io::Result<File> {
            Ok(File::from_parts(self.inner.try_clone()?, self.path.clone()))
        }
        pub async fn set_permissions(&self, perm: std::fs::Permissions) -> io::Result<()> {
            failed(Gate::new(GateKind::Write, self.path.clone(), None).await)?;
            self.inner.set_permissions(perm)
        }
        pub fn set_max_buf_size(&mut self, _max: usize) {}
        pub async fn sync_all(&self) -> io::Result<()> {
            failed(Gate::new(GateKind::Sync, self.path.clone(), None).await)?;
            self.inner.sync_all()
        }
        pub async fn sync_data(&self) -> io::Result<()> {
            failed(Gate::new(GateKind::Sync, self.path.clone(), None).await)?;
            self.inner.sync_data()
        }
        pub async fn set_len(&self, size: u64) -> io::Result<()> {
            failed(Gate::new(GateKind::Write, self.path.clone(), None).await)?;
            self.inner.set_len(size)
        }
        pub async fn metadata(&self) -> io::Result<std::fs::Metadata> {
            self.inner.metadata()
        }

        /// Park on a gate of `kind`; `Ready` once the simulator has fired it.
        fn poll_gate(&mut self, cx: &mut Context<'_>, kind: GateKind, data: Option<&[u8]>) -> Poll<Option<i32>> {
            if self.gate.is_none() {
                self.gate = Some(Gate::new(kind, self.path.clone(), data.map(|d| d.to_vec())));
            }
            let g = self.gate.as_mut().unwrap();
            match Pin::new(g).poll(cx) {
                Poll::Ready(r) => {
                    self.gate = None;
                    Poll::Ready(r)
                }
                Poll::Pending => Poll::Pending,
            }
        }

        /// Wait for the write in flight, if any, and remember its failure.
        fn poll_inflight(&mut self, cx: &mut Context<'_>) -> Poll<()> {
            if let Some(id) = self.inflight {
                match sim::poll_write_outcome(id, cx) {
                    Poll::Pending => return Poll::Pending,
                    Poll::Ready(r) => {
                        self.inflight = None;
                        if let Err(errno) = r {
                            self.last_write_err = Some(errno);
                        }
                    }
                }
            }
            Poll::Ready(())
        }
    }

    impl Drop for File {
        fn drop(&mut self) {
            if let Some(id) = self.inflight.take() {
                sim::orphan_write(id);
            }
        }
    }

    impl AsyncRead for File {
        fn poll_read(self: Pin<&mut Self>, cx: &mut Context<'_>, buf: &mut ReadBuf<'_>) -> Poll<io::Result<()>> {
            let me = self.get_mut();
            if me.poll_inflight(cx).is_pending() {
                return Poll::Pending;
            }
            match me.poll_gate(cx, GateKind::Read, None) {
                Poll::Pending => return Poll::Pending,
                Poll::Ready(Some(errno)) => return Poll::Ready(Err(io::Error::from_raw_os_error(errno))),
                Poll::Ready(None) => {}
            }
            let want = buf.remaining();
            let take = sim::short_len(GateKind::Read, want);
            let dst = buf.initialize_unfilled_to(take);
            // like tokio's blocking-pool implementation: EINTR is retried, never surfaced
            loop {
                match (&*me.inner).read(dst) {
                    Ok(n) => {
                        buf.advance(n);
                        return Poll::Ready(Ok(()));
                    }
                    Err(e) if e.kind() == io::ErrorKind::Interrupted => continue,
                    Err(e) => return Poll::Ready(Err(e)),
                }
            }
        }
    }

    impl AsyncWrite for File {
        fn poll_write(self: Pin<&mut Self>, cx: &mut Context<'_>, buf: &[u8]) -> Poll<io::Result<usize>> {
            let me = self.get_mut();
            // one operation at a time: the previous write has to finish first, and this call
            // is where its failure surfaces
            if me.poll_inflight(cx).is_pending() {
                return Poll::Pending;
            }
            if let Some(errno) = me.last_write_err.take() {
                return Poll::Ready(Err(io::Error::from_raw_os_error(errno)));
            }
            let take = sim::short_len(GateKind::Write, buf.len());
            match sim::submit_write(&me.path, me.inner.clone(), buf[..take].to_vec()) {
                Some(id) => {
                    me.inflight = Some(id);
                    Poll::Ready(Ok(take))
                }
                None => {
                    // seam off: plain synchronous write
                    loop {
                        match (&*me.inner).write(&buf[..take]) {
                            Err(e) if e.kind() == io::ErrorKind::Interrupted => continue,
                            r => return Poll::Ready(r),
                        }
                    }
                }
            }
        }
        fn poll_flush(self: Pin<&mut Self>, cx: &mut Context<'_>) -> Poll<io::Result<()>> {
            let me = self.get_mut();
            if me.poll_inflight(cx).is_pending() {
                return Poll::Pending;
            }
            if let Some(errno) = me.last_write_err.take() {
                return Poll::Ready(Err(io::Error::from_raw_os_error(errno)));
            }
            Poll::Ready(Ok(()))
        }
        fn poll_shutdown(self: Pin<&mut Self>, cx: &mut Context<'_>) -> Poll<io::Result<()>> {
            self.poll_flush(cx)
        }
    }

    impl AsyncSeek for File {
        fn start_seek(self: Pin<&mut Self>, position: io::SeekFrom) -> io::Result<()> {
            (&*self.get_mut().inner).seek(position).map(|_| ())
        }
        fn poll_complete(self: Pin<&mut Self>, _cx: &mut Context<'_>) -> Poll<io::Result<u64>> {
            Poll::Ready((&*self.get_mut().inner).stream_position())
        }
    }
}
