//! The seam between the shimmed `tokio::fs` and the simulator.
//!
//! A `Gate` is a future that stays `Pending` until the simulator fires it.  With
//! the seam disabled (the default) a gate is immediately ready, i.e. the shim
//! behaves like a synchronous `tokio::fs`.

use std::future::Future;
use std::path::{Path, PathBuf};
use std::pin::Pin;
use std::sync::Mutex;
use std::task::{Context, Poll, Waker};

#[derive(Clone, Copy, Debug, PartialEq, Eq, Hash, PartialOrd, Ord)]
pub enum GateKind {
    Open,
    Create,
    Mkdir,
    ReadFile,
    Read,
    Write,
    Flush,
    Sync,
    Rename,
    Remove,
    Stat,
}

impl GateKind {
    pub fn name(self) -> &'static str {
        match self {
            GateKind::Open => "open",
            GateKind::Create => "create",
            GateKind::Mkdir => "mkdir",
            GateKind::ReadFile => "readfile",
            GateKind::Read => "read",
            GateKind::Write => "write",
            GateKind::Flush => "flush",
            GateKind::Sync => "sync",
            GateKind::Rename => "rename",
            GateKind::Remove => "remove",
            GateKind::Stat => "stat",
        }
    }
    /// Does the operation behind this gate change the file system?
    pub fn mutates(self) -> bool {
        matches!(
            self,
            GateKind::Create | GateKind::Mkdir | GateKind::Write | GateKind::Rename | GateKind::Remove
        )
    }
}

#[derive(Clone, Debug)]
pub struct GateDesc {
    pub id: u64,
    pub kind: GateKind,
    pub path: PathBuf,
    pub data_len: Option<usize>,
}

struct Entry {
    id: u64,
    kind: GateKind,
    path: PathBuf,
    data: Option<Vec<u8>>,
    fired: bool,
    /// errno the operation is to fail with instead of being carried out
    fail: Option<i32>,
    waker: Option<Waker>,
    /// a write that `File::poll_write` has accepted and that is carried out "in the background"
    /// when the simulator fires the gate (tokio::fs::File hands writes to its blocking pool and
    /// reports their outcome at the next write or flush)
    deferred: Option<std::sync::Arc<std::fs::File>>,
    /// outcome of a deferred write that has been carried out (errno on failure)
    outcome: Option<Result<(), i32>>,
    /// the file was dropped before the outcome was collected
    orphan: bool,
}

type ShortFn = Box<dyn FnMut(GateKind, usize) -> usize + Send>;

struct Table {
    enabled: bool,
    next_id: u64,
    entries: Vec<Entry>,
    short: Option<ShortFn>,
    oplog: Vec<(GateKind, PathBuf)>,
    gates_created: u64,
}

static TABLE: Mutex<Table> = Mutex::new(Table {
    enabled: false,
    next_id: 1,
    entries: Vec::new(),
    short: None,
    oplog: Vec::new(),
    gates_created: 0,
});

fn table() -> std::sync::MutexGuard<'static, Table> {
    TABLE.lock().unwrap_or_else(|e| e.into_inner())
}

/// Turn the seam on or off.  Off: every gate is immediately ready.
pub fn enable(on: bool) {
    table().enabled = on;
}

/// Forget all gates, logs and hooks (start of a run).
pub fn reset() {
    let mut t = table();
    t.entries.clear();
    t.next_id = 1;
    t.short = None;
    t.oplog.clear();
    t.gates_created = 0;
}

/// Gates that are waiting to be fired, oldest first.
pub fn pending() -> Vec<GateDesc> {
    table()
        .entries
        .iter()
        .filter(|e| !e.fired)
        .map(|e| GateDesc {
            id: e.id,
            kind: e.kind,
            path: e.path.clone(),
            data_len: e.data.as_ref().map(|d| d.len()),
        })
        .collect()
}

/// Bytes offered by the write parked on gate `id` (for torn writes at a crash).
pub fn peek_data(id: u64) -> Option<Vec<u8>> {
    table().entries.iter().find(|e| e.id == id).and_then(|e| e.data.clone())
}

/// Let the operation behind gate `id` proceed.
pub fn fire(id: u64) -> bool {
    fire_with(id, None)
}

/// Complete gate `id` with an injected failure: the operation is not carried out and the
/// caller sees the OS error `errno` (EIO, ENOSPC, EMFILE, EACCES ...).
pub fn fire_fail(id: u64, errno: i32) -> bool {
    fire_with(id, Some(errno))
}

fn fire_with(id: u64, fail: Option<i32>) -> bool {
    let waker = {
        let mut t = table();
        let enabled = t.enabled;
        match t.entries.iter().position(|e| e.id == id && !e.fired) {
            Some(p) => {
                let e = &mut t.entries[p];
                e.fired = true;
                e.fail = fail;
                let w = e.waker.take();
                if let Some(file) = e.deferred.clone() {
                    // carry the accepted write out now
                    let data = e.data.clone().unwrap_or_default();
                    let path = e.path.clone();
                    let outcome = match fail {
                        Some(errno) => Err(errno),
                        None => {
                            use std::io::Write;
                            (&*file).write_all(&data).map_err(|err| err.raw_os_error().unwrap_or(5))
                        }
                    };
                    e.outcome = Some(outcome);
                    let orphan = e.orphan;
                    if enabled && fail.is_none() {
                        t.oplog.push((GateKind::Write, path));
                    }
                    if orphan {
                        t.entries.remove(p);
                    }
                }
                w
            }
            None => return false,
        }
    };
    if let Some(w) = waker {
        w.wake();
    }
    true
}

/// `File::poll_write` hands an accepted write to the simulator: it is carried out when the gate
/// is fired.  `None`: the seam is off, the caller writes inline.
pub fn submit_write(path: &Path, file: std::sync::Arc<std::fs::File>, data: Vec<u8>) -> Option<u64> {
    let mut t = table();
    if !t.enabled {
        return None;
    }
    let id = t.next_id;
    t.next_id += 1;
    t.gates_created += 1;
    t.entries.push(Entry {
        id,
        kind: GateKind::Write,
        path: path.to_path_buf(),
        data: Some(data),
        fired: false,
        fail: None,
        waker: None,
        deferred: Some(file),
        outcome: None,
        orphan: false,
    });
    Some(id)
}

/// Outcome of a deferred write: pending until the simulator has fired its gate.
pub fn poll_write_outcome(id: u64, cx: &mut Context<'_>) -> Poll<Result<(), i32>> {
    let mut t = table();
    match t.entries.iter().position(|e| e.id == id) {
        Some(p) if t.entries[p].fired => {
            let e = t.entries.remove(p);
            Poll::Ready(e.outcome.unwrap_or(Ok(())))
        }
        Some(p) => {
            t.entries[p].waker = Some(cx.waker().clone());
            Poll::Pending
        }
        // table was reset under us (end of run)
        None => Poll::Ready(Ok(())),
    }
}

/// The file behind a deferred write was dropped: the write still happens when its gate fires.
pub fn orphan_write(id: u64) {
    let mut t = table();
    if let Some(p) = t.entries.iter().position(|e| e.id == id) {
        if t.entries[p].fired {
            t.entries.remove(p);
        } else {
            t.entries[p].orphan = true;
            t.entries[p].waker = None;
        }
    }
}

/// The process dies with a deferred write in flight: its first `n` bytes reach the file.
pub fn land_prefix(id: u64, n: usize) -> bool {
    let t = table();
    match t.entries.iter().find(|e| e.id == id) {
        Some(e) => match (&e.deferred, &e.data) {
            (Some(file), Some(data)) => {
                use std::io::Write;
                let n = n.min(data.len());
                (&**file).write_all(&data[..n]).is_ok()
            }
            _ => false,
        },
        None => false,
    }
}

/// Install the decision function for short reads/writes: given the kind and the
/// number of bytes offered, return how many the operation may transfer (>= 1).
pub fn set_short(f: Option<ShortFn>) {
    table().short = f;
}

pub fn short_len(kind: GateKind, len: usize) -> usize {
    if len <= 1 {
        return len;
    }
    let mut t = table();
    match t.short.as_mut() {
        Some(f) => f(kind, len).clamp(1, len),
        None => len,
    }
}

/// Record that a file-system operation was carried out (for the C10 ledger).
pub fn note_op(kind: GateKind, path: &Path) {
    let mut t = table();
    if t.enabled {
        t.oplog.push((kind, path.to_path_buf()));
    }
}

pub fn take_oplog() -> Vec<(GateKind, PathBuf)> {
    std::mem::take(&mut table().oplog)
}

pub fn gates_created() -> u64 {
    table().gates_created
}

/// A suspension point owned by the simulator.
pub struct Gate {
    id: Option<u64>,
    kind: GateKind,
    path: PathBuf,
    data: Option<Vec<u8>>,
    done: bool,
}

impl Gate {
    pub fn new(kind: GateKind, path: PathBuf, data: Option<Vec<u8>>) -> Self {
        Gate { id: None, kind, path, data, done: false }
    }
}

impl Future for Gate {
    /// `Some(errno)`: the simulator wants the operation to fail with that OS error.
    type Output = Option<i32>;
    fn poll(self: Pin<&mut Self>, cx: &mut Context<'_>) -> Poll<Option<i32>> {
        let me = self.get_mut();
        if me.done {
            return Poll::Ready(None);
        }
        let mut t = table();
        if !t.enabled {
            me.done = true;
            return Poll::Ready(None);
        }
        match me.id {
            None => {
                let id = t.next_id;
                t.next_id += 1;
                t.gates_created += 1;
                t.entries.push(Entry {
                    id,
                    kind: me.kind,
                    path: me.path.clone(),
                    data: me.data.take(),
                    fired: false,
                    fail: None,
                    waker: Some(cx.waker().clone()),
                    deferred: None,
                    outcome: None,
                    orphan: false,
                });
                me.id = Some(id);
                Poll::Pending
            }
            Some(id) => {
                let pos = t.entries.iter().position(|e| e.id == id);
                match pos {
                    Some(p) if t.entries[p].fired => {
                        let e = t.entries.remove(p);
                        me.id = None;
                        me.done = true;
                        Poll::Ready(e.fail)
                    }
                    Some(p) => {
                        t.entries[p].waker = Some(cx.waker().clone());
                        Poll::Pending
                    }
                    None => {
                        // table was reset under us (end of run): complete.
                        me.id = None;
                        me.done = true;
                        Poll::Ready(None)
                    }
                }
            }
        }
    }
}

impl Drop for Gate {
    fn drop(&mut self) {
        if let Some(id) = self.id {
            let mut t = table();
            if let Some(p) = t.entries.iter().position(|e| e.id == id) {
                t.entries.remove(p);
            }
        }
    }
}
