#!/bin/bash
# usage: try_seeded.sh <patch.diff> <prop> [extra check args...]
# Applies a seeded change to /repo, runs the property's quick check, undoes the change.
set -u
PATCH="$1"; PROP="$2"; shift; shift
cd /repo || exit 2
if [ -n "$(git status --porcelain)" ]; then echo "REPO-NOT-CLEAN"; exit 2; fi
if ! git apply --check "$PATCH" 2>/dev/null; then echo "PATCH-DOES-NOT-APPLY $PATCH"; exit 2; fi
git apply "$PATCH"
cd /verif
out=$(./check "$PROP" quick --no-evidence "$@" 2>&1); rc=$?
git -C /repo checkout -- . ; git -C /repo clean -fdq -- harper-ls harper-core harper-stats harper-wasm harper-comments 2>/dev/null
# never leave a simulator built from the changed tree behind
./check build >/dev/null 2>&1
echo "$out" | grep -E "^(VIOLATION|  oracle|KNOWN|HARNESS|DONE)" | cut -c1-260
echo "exit=$rc"
