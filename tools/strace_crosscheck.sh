#!/bin/bash
# Cross-check of the libc seam (C10, thorough tier): a sample of simulated sessions is executed
# under strace. The seam refuses every network call before it reaches the kernel and records every
# file creation, so the kernel-level trace must show (a) no network system call at all from the
# simulation processes and (b) no file opened for writing / created / renamed / removed outside the
# scratch world, /verif/evidence and /verif/replays. Anything else means some code reaches the
# kernel without going through the interposed libc symbols: the seam is incomplete (exit 2).
set -u
BIN="$1"; SCALE="${2:-0.03}"
LOG="$(mktemp /dev/shm/hsim-strace.XXXXXX)"
trap 'rm -f "$LOG" "$LOG".*' EXIT
if ! command -v strace >/dev/null; then echo "strace cross-check: strace not available, skipped"; exit 0; fi
strace -f -qq -o "$LOG" -e trace=network,openat,open,creat,mkdir,mkdirat,rename,renameat,renameat2,unlink,unlinkat,rmdir,symlink,symlinkat,link,linkat,execve,truncate,chmod,fchmodat \
  "$BIN" check --prop C10 --tier quick --scale "$SCALE" --workers 4 --no-evidence --max-minimise 0 >/dev/null 2>&1
rc=$?
if [ $rc -ne 0 ]; then echo "HARNESS-ERROR: strace cross-check: the traced C10 run exited $rc"; exit 2; fi
net=$(grep -E ' (socket|connect|bind|listen|sendto|sendmsg|sendmmsg|accept|accept4)\(' "$LOG" | grep -v 'AF_UNIX' | head -5)
writes=$(grep -E '(openat|open|creat)\(' "$LOG" | grep -E 'O_WRONLY|O_RDWR|O_CREAT|creat\(' | grep -v -E '"/dev/shm/harper-verif\.|"/proc/self/cwd/w|"w/|"/verif/(evidence|replays)|"/dev/null|"/dev/shm/hsim-|= -1 ' | head -5)
# (removals relative to a directory descriptor are the harness's own remove_dir_all of a finished run's world)
others=$(grep -E ' (mkdir|mkdirat|rename|renameat|renameat2|unlink|unlinkat|rmdir|symlink|symlinkat|link|linkat)\(' "$LOG" | grep -v -E ' unlinkat\([0-9]+, ' | grep -v -E '/dev/shm/harper-verif\.|/proc/self/cwd/w|"w/|"w"|"[0-9]+"|/verif/(evidence|replays)|= -1 ' | head -5)
# (the only programs ever started are the simulator's own worker processes)
execs=$(grep -E " execve\\(" "$LOG" | grep -v -F "\"$BIN\"" | grep -v -F "\"/proc/self/exe\", [\"hsim\", \"worker\"]" | grep -v "= -1 " | head -5)
meta=$(grep -E ' (truncate|chmod|fchmodat)\(' "$LOG" | grep -v -E '/dev/shm/harper-verif\.|/proc/self/cwd/w|"w/|= -1 ' | head -5)
n=$(wc -l < "$LOG")
if [ -n "$net$writes$others$execs$meta" ]; then
  echo "HARNESS-ERROR: strace cross-check: system calls that the libc seam did not account for:"; echo "$net"; echo "$writes"; echo "$others"; echo "$execs"; echo "$meta"; exit 2
fi
echo "strace cross-check: $n traced system calls of the selected classes, no network call, no write outside the scratch world, no program started"
exit 0
