#!/bin/bash
# Determinism proof: every run of a property's batches is executed several times — in
# different worker slots, at different worker counts, from different working directories
# and environment sizes — and the hashes of the complete event logs must be identical.
# usage: determinism.sh <hsim binary> [scale]
set -u
BIN="$1"; SCALE="${2:-0.25}"
TMP="$(mktemp -d /dev/shm/hsim-det.XXXXXX)"
trap 'rm -rf "$TMP"' EXIT
fail=0
for prop in ${DET_PROPS:-C19 C09 C07 C08 C10 C14 C16 C05}; do
  if ! "$BIN" check --prop "$prop" --tier quick --scale 0.0001 --no-evidence --max-minimise 0 >/dev/null 2>&1; then
    rc=$?
    if [ $rc -eq 2 ] && "$BIN" check --prop "$prop" --tier quick --scale 0.0001 --no-evidence --max-minimise 0 2>&1 | grep -q "no check for property"; then continue; fi
  fi
  i=0
  for cfg in "16:/:" "4:/tmp:A=1" "1:/dev/shm:LONG_ENVIRONMENT_VARIABLE_TO_SHIFT_THE_STACK=xxxxxxxxxxxxxxxxxxxxxxxxxxxxxxxxxxxxxxxxxxxxxxxxxxxxxxxxxxxxxxxxxxxxxx"; do
    w="${cfg%%:*}"; rest="${cfg#*:}"; dir="${rest%%:*}"; envs="${rest#*:}"
    sc="$SCALE"; [ "$w" = 1 ] && sc="$(echo "$SCALE / 8" | bc -l)"
    (cd "$dir" && env ${envs:+"$envs"} "$BIN" check --prop "$prop" --tier quick --scale "$sc" --workers "$w" --no-evidence --max-minimise 0 --hash-log "$TMP/$prop.$i" >/dev/null 2>&1)
    i=$((i+1))
  done
  # compare on the common prefix of run indices (the 1-worker pass runs fewer)
  n=$(wc -l < "$TMP/$prop.2")
  total=$(wc -l < "$TMP/$prop.0")
  if ! cmp -s "$TMP/$prop.0" "$TMP/$prop.1"; then
    echo "DETERMINISM-FAILURE $prop: 16 workers vs 4 workers differ:"; diff "$TMP/$prop.0" "$TMP/$prop.1" | head -5; fail=1
  fi
  # the 1-worker pass runs a prefix of every batch: each of its (seed, hash) lines must occur in the full pass
  if [ "$(comm -13 "$TMP/$prop.0" "$TMP/$prop.2" | wc -l)" != 0 ]; then
    echo "DETERMINISM-FAILURE $prop: 1-worker pass differs:"; comm -13 "$TMP/$prop.0" "$TMP/$prop.2" | head -5; fail=1
  fi
  echo "determinism $prop: $total runs x2 (16 vs 4 workers, different cwd/env) identical=$([ $fail = 0 ] && echo yes || echo NO); 1-worker pass: $n runs, all found identical in the 16-worker pass"
done
exit $fail
