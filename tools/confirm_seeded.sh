#!/bin/bash
# Confirms seeded changes in a scratch worktree: for each /verif/seeded/<id>: the patch applies and
# builds, the full pinned suite passes with it, the demonstration fails with it and passes without.
# usage: confirm_seeded.sh <worktree> <id>...
set -u
WT="$1"; shift
export RUSTUP_TOOLCHAIN=stable-x86_64-unknown-linux-gnu CARGO_NET_OFFLINE=true
BIN=/tmp/confirm-bin; mkdir -p $BIN
cd "$WT" || exit 2
git checkout -q -- . ; git clean -fdq -e target
if [ ! -x $BIN/baseline ]; then cargo build -q -p harper-ls --offline 2>/dev/null && cp target/debug/harper-ls $BIN/baseline; fi
run_demo() { # $1 = id, $2 = binary ; prints exit code of the demo
  local id="$1" bin="$2" d="/verif/seeded/$1/demo"
  case "$id" in
    C10-1) (cd $d && python3 lsp_demo.py $bin stats-shutdown >/dev/null 2>&1; echo $?) ;;
    C10-2) (cd $d && python3 lsp_demo.py $bin typst-error >/dev/null 2>&1; echo $?) ;;
    C10-3) (cd $d && python3 lsp_demo.py $bin dict-twice >/dev/null 2>&1; echo $?) ;;
    C19-1) mkdir -p harper-stats/tests; cp $d/c19_chunked_reader.rs harper-stats/tests/; cargo test -q -p harper-stats --offline --test c19_chunked_reader >/dev/null 2>&1; echo $?; rm -rf harper-stats/tests ;;
    C19-2) mkdir -p harper-stats/tests; cp $d/c19_short_writes.rs harper-stats/tests/; cargo test -q -p harper-stats --offline --test c19_short_writes >/dev/null 2>&1; echo $?; rm -rf harper-stats/tests ;;
    C19-3) mkdir -p harper-ls/tests; cp $d/c19_ls_lifetimes.rs harper-ls/tests/; cargo test -q -p harper-ls --offline --test c19_ls_lifetimes >/dev/null 2>&1; echo $?; rm -rf harper-ls/tests ;;
    C19b-1|C19b-2) mkdir -p harper-stats/tests; cp $d/*.rs harper-stats/tests/; t=$(basename $(ls $d/*.rs | head -1) .rs); cargo test -q -p harper-stats --offline -j 6 --test $t >/dev/null 2>&1; echo $?; rm -rf harper-stats/tests ;;
    C19b-3) mkdir -p harper-ls/tests; cp $d/*.rs harper-ls/tests/; t=$(basename $(ls $d/*.rs | head -1) .rs); cargo test -q -p harper-ls --offline -j 6 --test $t >/dev/null 2>&1; echo $?; rm -rf harper-ls/tests ;;
    C14b-3) cp $d/*.rs harper-core/tests/; t=$(basename $(ls $d/*.rs | head -1) .rs); cargo test -q -p harper-core --offline -j 6 --test $t >/dev/null 2>&1; echo $?; rm -f harper-core/tests/$t.rs ;;
    C14-1|C16-1|C16-2|C16-3|C05-3|C16b-1|C16b-2|C16b-3|C14b-1|C14b-2) mkdir -p harper-wasm/tests; cp $d/*.rs harper-wasm/tests/; t=$(basename $(ls $d/*.rs | head -1) .rs); cargo test -q -p harper-wasm --offline -j 6 --test $t >/dev/null 2>&1; echo $?; rm -rf harper-wasm/tests ;;
    C14-2|C05-2) cp $d/*.rs harper-core/tests/; t=$(basename $(ls $d/*.rs | head -1) .rs); cargo test -q -p harper-core --offline -j 6 --test $t >/dev/null 2>&1; echo $?; rm -f harper-core/tests/$t.rs ;;
    C05-1) cp $d/c05_config_toggle.rs harper-core/tests/; cargo test -q -p harper-core --offline -j 6 --test c05_config_toggle >/dev/null 2>&1; echo $?; rm -f harper-core/tests/c05_config_toggle.rs ;;
    C14-3) mkdir -p harper-ls/tests; cp $d/*.rs harper-ls/tests/; t=$(basename $(ls $d/*.rs | head -1) .rs); cargo test -q -p harper-ls --offline -j 6 --test $t >/dev/null 2>&1; echo $?; rm -rf harper-ls/tests ;;
    C08-1|C08-2|C08-3) git apply $d/demo.patch 2>/dev/null; cargo test -q -p harper-ls --offline -j 6 >/dev/null 2>&1; echo $?; git apply -R $d/demo.patch 2>/dev/null ;;
    C05b-1) cp $d/c05b_moved_clause.rs harper-core/tests/; cargo test -q -p harper-core --offline -j 6 --test c05b_moved_clause >/dev/null 2>&1; echo $?; rm -f harper-core/tests/c05b_moved_clause.rs ;;
    C05b-2|C05b-3|C14c-2|C14d-1|C05c-1|C05c-2) cp $d/*.rs harper-core/tests/; t=$(basename $(ls $d/*.rs | head -1) .rs); cargo test -q -p harper-core --offline -j 6 --test $t >/dev/null 2>&1; echo $?; rm -f harper-core/tests/$t.rs ;;
    C14c-1) cp $d/c14_core_roundtrip.rs harper-core/tests/; cargo test -q -p harper-core --offline -j 6 --test c14_core_roundtrip >/dev/null 2>&1; echo $?; rm -f harper-core/tests/c14_core_roundtrip.rs ;;
    C07c-3) mkdir -p harper-wasm/tests; cp $d/*.rs harper-wasm/tests/; t=$(basename $(ls $d/*.rs | head -1) .rs); cargo test -q -p harper-wasm --offline -j 6 --test $t >/dev/null 2>&1; echo $?; rm -rf harper-wasm/tests ;;
    C07c-1) (python3 $d/demo_write_error.py $bin >/dev/null 2>&1; echo $?) ;;
    C07c-2) (python3 $d/demo_chunk_boundary.py $bin >/dev/null 2>&1; echo $?) ;;
    C14c-3) (python3 $d/ls_ignore_by_kind.py $bin >/dev/null 2>&1; echo $?) ;;
    C09c-1|C09c-2|C09c-3|C10c-1|C10c-2|C10c-3|C10d-1|C10d-2|C10d-3|C07d-1|C07d-2|C07d-3|C08c-1|C08c-2|C08c-3|C09d-1|C09d-2|C09d-3|C14d-2) (HARPER_LS=$bin python3 $d/demo.py >/dev/null 2>&1; echo $?) ;;
    C19c-1|C19c-2|C19d-1|C19d-2) mkdir -p harper-stats/tests; cp $d/*.rs harper-stats/tests/; t=$(basename $(ls $d/*.rs | head -1) .rs); cargo test -q -p harper-stats --offline -j 6 --test $t >/dev/null 2>&1; echo $?; rm -rf harper-stats/tests ;;
    C19c-3) (python3 $d/c19c_ls_close_then_shutdown.py $bin >/dev/null 2>&1; echo $?) ;;
    C16c-1|C16c-2|C16c-3|C14d-3|C16d-1|C16d-2) mkdir -p harper-wasm/tests; cp $d/*.rs harper-wasm/tests/; t=$(basename $(ls $d/*.rs | head -1) .rs); cargo test -q -p harper-wasm --offline -j 6 --test $t >/dev/null 2>&1; echo $?; rm -rf harper-wasm/tests ;;
    *) if [ -f $d/demo.py ]; then (python3 $d/demo.py $bin >/dev/null 2>&1; echo $?); else echo "no-demo-runner"; fi ;;
  esac
}
for id in "$@"; do
  S=/verif/seeded/$id
  git checkout -q -- . ; git clean -fdq -e target
  base_demo=$(run_demo $id $BIN/baseline)
  PATCH="$S/patch.diff"; [ -f "$S/patch.rebased.diff" ] && PATCH="$S/patch.rebased.diff"
  if ! git apply "$PATCH"; then echo "{\"id\":\"$id\",\"applies\":false}" > $S/confirm.json; continue; fi
  if ! cargo build -q -p harper-ls --offline 2>/dev/null; then echo "{\"id\":\"$id\",\"applies\":true,\"builds\":false}" > $S/confirm.json; git checkout -q -- .; continue; fi
  cp target/debug/harper-ls $BIN/$id
  seeded_demo=$(run_demo $id $BIN/$id)
  summary=$(cargo nextest run --workspace --no-fail-fast --test-threads 6 --offline 2>&1 | grep -E "^\s*Summary" | tail -1 | sed 's/^ *//')
  git checkout -q -- . ; git clean -fdq -e target
  printf '{"id":"%s","applies":true,"builds":true,"suite_with_change":"%s","demo_exit_without_change":"%s","demo_exit_with_change":"%s","confirmed_at_commit":"%s"}\n' \
     "$id" "$summary" "$base_demo" "$seeded_demo" "$(git rev-parse --short HEAD)" > $S/confirm.json
  cat $S/confirm.json
done
