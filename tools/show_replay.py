#!/usr/bin/env python3
"""Print a replay file compactly: the violation, then the event log."""
import json, sys
r = json.load(open(sys.argv[1]))
width = int(sys.argv[2]) if len(sys.argv) > 2 else 260
v = r["violation"]
print("property", r["property"], "class", v["class"], "oracle", v["oracle"], "seed", r["seed"], "minimised", r.get("minimised"))
print("detail:", v["detail"][:2000])
print("facts:", json.dumps(v.get("facts")))
t = r["trace"]
if "cfg" in t:
    c = dict(t["cfg"]); g = c.pop("gen_cfg", {})
    print("cfg:", json.dumps(c)); print("gen:", json.dumps(g))
for l in t.get("event_log", []):
    print(l[:width])
