#!/usr/bin/env python3
"""Generates /verif/MANIFEST.json.  Edit CLAIMED / NA below, then run."""
import json, os, sys
HERE = os.path.dirname(os.path.dirname(os.path.abspath(__file__)))

BASELINE = ("cd /repo && RUSTUP_TOOLCHAIN=stable-x86_64-unknown-linux-gnu cargo nextest run --workspace --no-fail-fast "
            "--test-threads 8 --offline || (cd /repo && RUSTUP_TOOLCHAIN=stable-x86_64-unknown-linux-gnu cargo test --workspace --no-fail-fast --offline)")

TECH = "deterministic simulation with fault injection (seeded search over histories, schedules and fault placements; oracle = reference model / stateless recomputation)"

CLAIMED = {
  "C19": dict(
    engine="io-sim",
    category="fault_enumeration",
    text=("The statistics log is simulated as a byte vector behind fault-injecting Write/Read (short transfers of every length, "
          "ErrorKind::Interrupted, boundaries inside UTF-8 sequences, seeded BufReader/BufWriter capacities). Histories of 1-5 append "
          "sessions of hostile records are written by the real Stats::write and read back by the real Stats::read after every session; "
          "oracle: element-wise equality with the model list, one raw newline per record, summarize() counts. For small logs every "
          "split point of the serialised bytes is enumerated as short-write boundary, write-EINTR point, read boundary and read-EINTR point. "
          "Exhaustive over fault positions per small history, sampled over histories: evidence, not proof."),
    design_ref="DESIGN.md §3 C19",
    note=("Trusted: serde_json and std BufReader/BufWriter behave per their contracts; the fault injector only produces behaviours the "
          "Read/Write contracts allow. Hard I/O errors and crashes mid-append are outside the property. save_stats in harper-ls is "
          "exercised by lsp-sim, not here."),
    technique=TECH + "; io-sim: fault-injecting Read/Write around the real Stats::write/read, split points enumerated"),
}

CLAIMED["C09"] = dict(
    engine="lsp-sim",
    category="exploration",
    text=("The real harper-ls Backend runs under the real tower-lsp Server::serve on a simulator-owned executor; a seeded scheduler "
          "decides every delivery of client bytes (with fragmentation), every answer to workspace/configuration, every completion of a "
          "file operation and every drain of the server's output, under four policies (sequential, uniform random, latency-ordered "
          "discrete-event, PCT-style priorities), over editor sessions of 1-3 documents in 30 language ids with edits, saves, closes, "
          "deletes, configuration changes (valid and invalid), dictionary and ignore commands, watched-file events and restarts, with editors that answer configuration requests or refuse them. At every quiescent point and at the end, the last "
          "publishDiagnostics per URI must equal a stateless recomputation from the editor model's truth (fresh dictionaries, fresh rule set, "
          "own language table, own rule-switch resolution, own UTF-16 arithmetic); closed documents must be empty; a sentinel request must be "
          "answered once input stops (bounded liveness); a server panic is a violation. Seeded sampling of histories and schedules: evidence, not proof."),
    design_ref="DESIGN.md §3 C09",
    note=("Trusted: tower-lsp/tokio::sync wake-ups are a deterministic consequence of the seams the simulator owns; the reference uses the same "
          "harper-core library (fresh instances), so a defect that is independent of history, schedule and state is invisible here (that is C01-C04/C11). "
          "main.rs is not executed; its Server configuration (concurrency level) is read from its source by the harness build script."),
    technique=TECH + "; lsp-sim: real server on a simulated executor/transport/file-completion order, editor model as reference")
CLAIMED["C07"] = dict(
    engine="lsp-sim",
    category="fault_enumeration",
    text=("Sessions dominated by add-to-dictionary commands (server-offered and generated Unicode words, adversarial file-name pairs, case variants) "
          "against the real server, with orderly restarts and process death. Crash points are enumerated, not sampled: for every crash-free base history, "
          "the run is re-executed with the process killed right before each event of each dictionary save (mkdir, create, every write, flush, rename), and "
          "for each write with the in-flight data landing as a prefix of 0, 1, half, all-but-one bytes; random crash placement is run in addition. A further batch injects disk errors (EIO, ENOSPC, EMFILE, EACCES) into the file operations of add-word commands; writes complete in the background as tokio's do, so a missing flush, a rename that overtakes its write, or a lost write error are all reachable. Dictionaries may pre-exist (hand-written, CRLF, without final newline, thousands of words, behind a symbolic link) and are also edited by hand during sequential sessions. "
          "Oracles: dictionary files reload to exactly the acknowledged words (an in-flight word may or may not be there, never a fragment); after "
          "every step the diagnostics of every open document equal the reference under the model's word sets (added words accepted, all else unchanged, "
          "file words only in their file). Exhaustive over crash points per sampled history; histories are sampled."),
    design_ref="DESIGN.md §3 C07",
    note=("Durability model: process death (completed system calls persist); power loss is not modelled. One add command in flight at a time. "
          "The harper_wasm import_words half of the property is exercised by api-sim under C16. Genuine findings left in the tree are listed in known_findings.jsonl "
          "(case-variant replacement, file-dictionary name collision, words of another dialect)."),
    technique=TECH + "; lsp-sim with crash/restart, crash points enumerated per dictionary save, torn writes")
CLAIMED["C10"] = dict(
    engine="lsp-sim",
    category="exploration",
    text=("Every way out of the simulated process is a seam the harness owns: the harness binary defines libc's socket/connect/bind/listen/sendto/"
          "sendmsg/getaddrinfo and posix_spawn/execve (recorded and refused) and open/openat/creat/mkdir(at)/rename(at,at2)/unlink(at)/link/symlink/truncate/chmod/utimensat and their descriptor-based forms (recorded and forwarded), and the whole server runs inside it, with the environment of a desktop session pointing into a scratch world that may already hold other programs' files and dictionaries at the default locations. "
          "Over sessions that use every notification and command except HarperOpen, with the dictionary and statistics paths set, unset and changed, "
          "the closed-world invariant is checked at every quiescent point and at exit: no network call, no program started; every created/modified path is a configured "
          "user-dictionary, file-dictionary or statistics file (or a directory leading to one, or a sibling temporary renamed onto one); a snapshot of the "
          "scratch world shows no stray file, no modified document and every pre-existing foreign file unchanged."),
    design_ref="DESIGN.md §3 C10",
    note=("Covers what the workloads reach inside the simulated process; main.rs (loopback listener), HarperOpen and the static dependency graph are outside. "
          "Assumes dependencies reach the kernel through libc symbols (interposed) rather than raw syscalls."),
    technique=TECH + "; closed-world invariant over libc seams in every simulated session")
CLAIMED["C08"] = dict(
    engine="lsp-sim",
    category="exploration",
    text=("The property quantifies over inputs only; it is claimed because it is a statement about two parties with different coordinate systems "
          "(char indices vs LSP line/UTF-16 column), observable only by running the protocol - the simulator contributes the second party and the "
          "session workload here, not interleavings (sequential policy). After every text change in documents of all language ids, with astral and "
          "combining characters, tabs, CRLF and lone-CR line ends, lints on first/last line, lints across a line break and missing trailing newlines, the editor model requests code actions at every "
          "character position inside every published range. Oracle: ranges equal reference lint spans under the editor's own UTF-16 arithmetic; every "
          "reference lint containing the position is offered with exactly that lint in its HarperIgnoreLint command; for each suggestion a returned "
          "TextEdit with exactly the lint's range, applied as an editor applies it, equals an independent splice of the suggestion into the char span."),
    design_ref="DESIGN.md §3 C08",
    note=("Reference lints come from the same harper-core; independent are the position arithmetic, the span->range->edit path and the range->span lookup. "
          "Positions inside surrogate pairs are not probed."),
    technique=TECH + "; lsp-sim sequential sessions: editor model with independent UTF-16 arithmetic probes every position of every diagnostic")
CLAIMED["C05"] = dict(
    engine="cache-sim",
    category="exploration",
    text=("Long-lived linters of the three kinds that exist in deployments (bare LintGroup; LintGroup driven like harper-ls's DocumentState; harper_wasm::Linter "
          "serving plain text and Markdown) live on a pool of real OS threads of which a baton releases exactly one at a time; the scheduler PRNG chooses the thread "
          "of every operation, linters migrate between threads, threads are spawned and retired, rules are toggled and toggled back, words are imported. Documents are "
          "assembled so that caches are hit in a different context than they were filled in (other offset, other language whose tokens differ for the same characters, "
          "other configuration, after >10 000 distinct clauses, with known words in another letter case). After every lint the complete result including order must equal that of a fresh linter on a fresh thread; "
          "every history runs in three hash universes (foldhash seeds, getrandom stream, clock epoch) inside separate forked processes and per-operation digests must agree."),
    design_ref="DESIGN.md §3 C05",
    note=("One thread runs at a time: true parallel execution of two lints is not explored (Harper shares no mutable state across threads other than lazily initialised statics and "
          "thread-locals). A defect that also occurs in a fresh linter is invisible here by construction."),
    technique=TECH + "; cache-sim: baton-scheduled real threads, seeded hash universes, long-lived vs fresh linter")
CLAIMED["C14"] = dict(
    engine="api-sim",
    category="exploration",
    text=("Histories (6-36 operations) of lint / ignore the k-th lint / edit (prepend, append, insert, delete, replace, quotes, astral characters, "
          "duplicated text, words placed just beyond an ignored lint's neighbourhood) / export-clear-import / language switch on two long-lived objects: the core IgnoredLints+LintGroup pair as harper-ls drives it, "
          "and harper_wasm::Linter. There is no fault or schedule dimension for this state; what is simulated is histories against a reference model, and the "
          "evidence says so. Model: ignored lint identities (kind, message, suggestions, priority, flagged text, token texts within two characters either side), "
          "tracked through edits while their neighbourhood is untouched. After every lint: a tracked ignored lint is absent; every lint of a fresh linter whose "
          "identity differs from all ignored ones is present; nothing is invented; export/clear/import changes nothing."),
    design_ref="DESIGN.md §3 C14",
    note="Lints with an identity equal to an ignored one elsewhere in the text may be hidden or shown. Reference lints come from a fresh linter of the same library.",
    technique=TECH + "; api-sim: seeded operation histories on long-lived IgnoredLints / harper_wasm::Linter vs an identity model")
CLAIMED["C16"] = dict(
    engine="api-sim",
    category="exploration",
    text=("Histories (6-36 calls) on one long-lived harper_wasm::Linter compiled natively, in all four dialects and both languages: lint, edits, language switches, "
          "ignore_lint, import_words, export_words into a new linter, export/clear/import of the ignore list, set/get configuration, apply_suggestion, JSON round "
          "trips of Lint/Span/Suggestion, statistics file round trip. No fault or schedule dimension (single-threaded object without I/O): histories against a model. "
          "After every lint: spans inside the text, non-overlapping, problem text = text[span]; the result equals that of a fresh Linter brought to the model's state by the "
          "shortest history (refinement); ignore removes that lint and nothing else; apply_suggestion equals an independent splice; every round trip restores behaviour."),
    design_ref="DESIGN.md §3 C16",
    note="The wasm-bindgen JS glue (JsValue-returning methods) is not executed; the Rust methods behind it are. One genuine finding (case-variant words) is listed in known_findings.jsonl.",
    technique=TECH + "; api-sim: seeded call histories on the JS-facing Linter vs a fresh Linter reached by the canonical history")
CLAIMED["C19"]["engine"] = "io-sim"
CLAIMED["C19"]["text"] += (" A further batch drives the real harper-ls save_stats through lsp-sim: HarperRecordLint commands with server-provided payloads, "
                            "several server lifetimes appending to one statistics file, short writes and EINTR injected at the libc write seam.")

NA = {
  "C01": "pure function of (text, language, configuration): no schedule, clock, fault, history or second party for a simulator to control; generating inputs would be input fuzzing, not this technique",
  "C02": "pure function Parser::parse(&[char]) -> Vec<Token>; no state, I/O, concurrency or history",
  "C03": "pure function of (text, front-end, configuration) plus the pure splice Suggestion::apply; the protocol-crossing part is covered by C08/C16",
  "C04": "pure function of the file contents per front-end parser; nothing a scheduler or fault injector can influence",
  "C06": "pure relation between dictionary contents and SpellCheck::lint; its quantifier is exhaustive enumeration of the word list, not simulation (the stateful half, words added at run time, is C07)",
  "C11": "pure function of (configuration, document) and pure algebra on LintGroupConfig; its stateful shadow (toggling config on a long-lived cached linter) is C05",
  "C12": "a relation between three evaluations of a pure function; no schedule, fault or history",
  "C13": "pure function on a list of spans",
  "C15": "pure functions of (dictionary contents, query); asks for exhaustive enumeration of small dictionaries, which is model checking of a pure function",
  "C17": "pure arithmetic on one token",
  "C18": "pure function &str -> String",
}

# properties whose check is designed (DESIGN.md) but not registered yet
PENDING = {
}

def main():
    checks = []
    for pid in sorted(CLAIMED):
        c = CLAIMED[pid]
        checks.append({
            "property_id": pid,
            "quick_cmd": f"./check {pid} quick",
            "thorough_cmd": f"./check {pid} thorough",
            "evidence_file": f"/verif/evidence/{pid}.json",
            "replay_cmd_template": f"./check {pid} --replay {{path}}",
            "engine": c["engine"],
            "level_claimed": {"category": c["category"], "text": c["text"], "design_ref": c["design_ref"]},
            "level_note": c["note"],
            "technique": c["technique"],
        })
    na = [{"property_id": k, "reason": v} for k, v in sorted({**NA, **PENDING}.items()) if k not in CLAIMED]
    engines = [
        {"name": "io-sim", "path": "sim/hsim/src/iosim.rs", "serves_properties": ["C19"],
         "kind_free_text": "simulated log file behind fault-injecting Read/Write; real harper-stats"},
        {"name": "lsp-sim", "path": "sim/hsim/src/lsp", "serves_properties": ["C07", "C08", "C09", "C10", "C14", "C19"],
         "kind_free_text": "real harper-ls Backend under real tower-lsp Server::serve on a simulator-owned executor; simulated stdio pipes, gated tokio::fs, libc clock/random/net/file seam, editor model, crash/restart"},
        {"name": "api-sim", "path": "sim/hsim/src/apisim.rs", "serves_properties": ["C14", "C16"],
         "kind_free_text": "histories of calls on harper_wasm::Linter / IgnoredLints against a reference model"},
        {"name": "cache-sim", "path": "sim/hsim/src/cachesim.rs", "serves_properties": ["C05"],
         "kind_free_text": "long-lived linters on baton-scheduled threads in seeded hash universes vs fresh linters"},
    ]
    engines = [e for e in engines if any(p in CLAIMED for p in e["serves_properties"])]
    for e in engines:
        e["serves_properties"] = [p for p in e["serves_properties"] if p in CLAIMED]
    m = {
        "version": 1,
        "setup_cmd": "./check build",
        "hooks": {
            "guard": "harper_verif",
            "enable": "none needed: the simulator compiles /repo's sources unchanged (harper-ls modules by #[path], tokio::fs via a shim crate, libc symbols defined in the harness binary); the flag --cfg harper_verif is reserved and unused",
            "baseline_off_cmd": BASELINE,
            "source_commits": [],
            "add_only": True,
        },
        "engines": engines,
        "checks": checks,
        "not_applicable": na,
        "notes": "One technique only: deterministic simulation with fault injection. Exit codes of every check: 0 held, 1 VIOLATION (with replay file), 2 harness trouble (never a violation). See DESIGN.md.",
    }
    with open(os.path.join(HERE, "MANIFEST.json"), "w") as f:
        json.dump(m, f, indent=1)
        f.write("\n")
    print("wrote MANIFEST.json:", len(checks), "checks,", len(na), "not applicable")

if __name__ == "__main__":
    main()
